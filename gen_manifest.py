#!/usr/bin/env python3
"""Regenerates MANIFEST.json from the table below (kept in one place so that it stays valid)."""
import json, subprocess

HOOK_COMMITS = ["b575948"]
FIX_COMMITS = ["45fedb3", "1dda9ee", "786139f", "b16e8cc", "ae6469b"]

CHECKS = {
 # id: (technique, level text, level note, design ref)
 "C01": ("runtime monitor: reference-rules-model oracle over generated games, turn trees and bounded-exhaustive sweeps",
         "Every state reached by the seeded workloads (10^6-10^8 states incl. complete 2-piece and local 3-piece geometry) had a rule-only action list equal, as a set, to the reference model's legal set; exploration, not proof.",
         "Trusts harness/src/model.rs as the statement of the rules; coverage is what the workloads reached (counters and floors in the evidence).", "§6 C01"),
 "C02": ("runtime monitor: board diff against reference apply+capture after every offered action",
         "Every offered action applied in the workloads produced exactly the model's board (one piece moved one square, exactly the unsupported trap pieces removed); all 4 traps x 2 colours x 4 capture causes are floor-checked.",
         "Trusts the reference apply/capture function; boards are decoded from bits_for_piece.", "§6 C02"),
 "C03": ("runtime monitor: shadow counters for side / step / move number at every transition",
         "Turn structure compared with shadow counters on every transition of games with passes at steps 1-3, fourth steps, captures, from parsed / injected / set-up starts and move numbers up to 10^6.",
         "Move-number overflow near usize::MAX is outside the statement and not exercised.", "§6 C03"),
 "C05": ("runtime monitor: exact-board shadow history over whole games (never cleared)",
         "Every completed turn of repetition-heavy games (reverser endgames, scripted three-fold cyclers, saturated-neighbourhood scripts, cyclers from the first position after a real setup, long cyclers whose third occurrence comes up to 684 / 2404 turns after the first) was judged against an exact-board history; third repetitions were attempted thousands of times by pass and by fourth step.",
         "Bounded restatement: games up to ~700 turns (quick) / ~2400 turns (thorough); exact boards, no hashes, in the oracle.", "§6 C05"),
 "C06": ("runtime monitor: ordered list comparison valid_actions vs filtered valid_actions_no_rep at every state",
         "At every visited state the offered list equalled, in order, the rule-only list minus exactly the turn-enders that the exact-board history forbids.",
         "Same bounded histories as C05; the oracle never forgets history at captures, so the capture shortcut is checked too.", "§6 C06"),
 "C07": ("runtime monitor: cross-query consistency (is_terminal / has_move / can_pass vs the action lists)",
         "All summary queries agreed with the action lists on every visited setup and play state, including thousands of constructed mid-turn states where the repetition rules withhold every turn-ender (nothing left / only a pull left / beside a pushable enemy).",
         "Dead ends are rare; the floors require that the run actually met them.", "§6 C07"),
 "C08": ("runtime monitor: from-scratch hash by two routes, history multiset containment, transposition pairs",
         "Incremental hashes equalled two independent from-scratch computations on every visited state; recorded turn-start hashes, the hooked stored hash, equal-state pairs by different paths and setup-vs-parse were compared.",
         "Hash collisions are not searched for; the value tables are read through the public API.", "§6 C08"),
 "C10": ("runtime monitor: structural invariant over all board views at every state",
         "All views (raw bitboards, accessors, square lookup by text, printed diagram) described one legal position on every visited state; all 768 square x piece-kind cells were seen.",
         "Reachability is what the workloads reach.", "§6 C10"),
 "C12": ("runtime monitor: reference status automaton vs push_pull_state at every state",
         "The reported status equalled the model automaton's on every visited state; all 64 squares for both kinds and all piece types were seen; pending-push lists equalled the model's completions.",
         "Trusts the automaton in harness/src/model.rs (it follows the property's wording).", "§6 C12"),
 "C13": ("runtime monitor: preview vs board diff of the engine's own take_action for every listed action",
         "For every state x listed action the preview equalled the single piece that actually disappeared; all 4 traps x 2 colours x 4 causes floor-checked.",
         "The oracle is the engine's own before/after board, decoded per square.", "§6 C13"),
 "C14": ("runtime monitor: shadow per-step board record vs piece_board_for_step",
         "piece_board_for_step(i) equalled the recorded board for all 0<=i<=k on every visited state incl. full turn trees.",
         "Step-indexed queries are only made in the play phase, as the statement says.", "§6 C14"),
}

CHECKS.update({
 "C04": ("runtime monitor: reference result function (official precedence) at every turn start; terminal-condition constructor workload",
         "All 18 consistent combinations of the five conditions x side x every goal square were constructed and judged, plus barely-mobile movers whose only legal steps are pushes (per pushed type and direction), mid-turn goal/elimination states and setup states.",
         "Trusts the reference result function; immobilised positions come from rejection sampling against the model.", "§6 C04"),
 "C09": ("runtime monitor: reference setup model over scripted and random placement orders",
         "All 971 non-final count vectors per colour and 10^4-10^6 random orders: offered placements, target square, piece, side/phase switch and the fresh play start all as stated.",
         "The 6.5e7 x 6.5e7 orders are sampled; the per-side state that decides the offered list (the count vector) is covered completely.", "§6 C09"),
 "C11": ("runtime monitor: metamorphic lock-step twin games (engine vs engine on the transformed game)",
         "Offered sets, rule-only sets, results and capture previews stayed images of each other at every state of 10^4-10^6 twin games under all three transforms, including repetition-heavy games.",
         "No model involved; guards against a misreading shared by the model and the engine.", "§6 C11"),
 "C15": ("runtime monitor: independent printer + re-parse on every visited state; catch_unwind fuzzing of the position parser in two build profiles",
         "Round trip held on every visited setup/play state; 10^6-10^8 structured hostile diagrams and random strings returned Ok or Err without unwinding, with and without overflow checks.",
         "The string space is sampled (structured mutation classes listed in the evidence).", "§6 C15"),
 "C16": ("runtime monitor: reference grammar vs the four notation parsers, exhaustive short strings + value spaces, catch_unwind, two build profiles",
         "All values round-trip; every string of length <=4 over a 45-symbol hostile alphabet and every printable-ASCII string of length <=3 is accepted iff the reference grammar accepts it, with the same value, and nothing panics.",
         "Longer strings are sampled.", "§6 C16"),
 "C17": ("runtime monitor: pairwise distinctness over the completely enumerated one-feature changes of each base state",
         "For every base state the finite space of one-feature changes (64x13 contents, 12 kinds x free squares, side, 4 steps, 641 statuses) was enumerated completely and all hashes were pairwise distinct.",
         "Base states are sampled (empty, opening array, random legal positions).", "§6 C17"),
 "C19": ("runtime monitor: catch_unwind + panic-site hook around every listed public call on every visited state, overflow checks and debug assertions on",
         "10^7-10^9 guarded engine calls over all play and setup families, turn trees and sweeps returned normally.",
         "Only the calls the statement lists are made (no step-indexed query in setup, no placement_bit in play).", "§6 C19"),
 "C18": ("build-time auto-trait probe + runtime result oracle under multi-threaded stress + ThreadSanitizer (-Zbuild-std) + Miri many-seeds on a bare workload",
         "The probe crate requiring Send + Sync compiled; thousands of rounds of 4-32 threads expanding shared states (Arc / borrowed with droppers / moved clones; incl. roots whose queries do several history look-ups with different answers, hammered 40x per thread) all equalled the sequential expansion with the root unchanged; cold-start processes, simultaneous last-owner drops with stack-span probes, TSan and Miri (two root kinds) were silent.",
         "Interleavings are sampled, not enumerated; the 'for all client programs' half is a compile-time fact observed through a build.", "§6 C18"),
 "C20": ("subprocess monitor: exit status of children playing 1.5e5-2e6 capture-free turns on a 2 MiB thread + VmStk high-water mark vs history length, two build profiles",
         "Children survived query / clone / capture / drop (also during panic unwinding, also by simultaneous last owners) after up to 4e5 (quick) / 3e6 (thorough) turns on the default 2 MiB stack, and stack use did not grow between 1e3 and 4e5 turns (VmStk) nor between 500 and 4000 nodes (drop probes).",
         "Bounded restatement of 'for all lengths'; a child that dies for another reason makes the run inconclusive.", "§6 C20"),
})

NOT_YET = {}

# additions made while validating against seeded changes (DESIGN.md 14.3); appended to the level notes
COMMON = " In 12 % of the games every engine call on the monitored state is preceded by the same call on look-alike decoy states (decoy.rs); a quarter of the games ask valid_actions() before valid_actions_no_rep() and carry one state object along with clone_from; half of the turn trees are walked level by level in transposition order; one W1 game in 16 starts from a wide-open position (whole army spread out or scattered, step lists of 50-70 entries) and the Reverser policy is part of the general policy list."
TWINS = " Every 4th (thorough: 12th) visited play state is also judged on synthetic twins built with the public constructors: re-assembled, saturated and half-saturated past (decoy::judged_twins) - these twins are not known to be reachable."
EXTRA = {
 "C01": COMMON + TWINS, "C04": COMMON + TWINS + " A mid-turn state with nothing offered must be reported as a loss for the mover.", "C07": COMMON + TWINS + " W4c barely-mobile positions (immobilised / nothing but pushes) are played as a game family, one turn each.", "C12": COMMON + TWINS,
 "C02": COMMON, "C03": COMMON, "C05": COMMON + " W5e null turns on wide-open positions (step, take-back, step, take-back attempt); 15 % of the games ask play states for valid_actions() only (offered-only diet).", "C06": COMMON + " W5e null turns on wide-open positions.", "C08": COMMON + " Every 16th turn start is also parsed from text with every accepted side letter (g/w, s/b).", "C09": COMMON + " Sparse setup walks: complete random orders with questions only before four placements; in every other walk unrelated setup positions (same slot of the other colour, next slot, same slot) are questioned right before placements made without a question; the finished position (board, side, phase) is judged.", "C10": COMMON, "C13": COMMON, "C19": COMMON + " clone_from is part of the call battery.",
 "C14": COMMON + " A scratch state overwritten with clone_from at every visited state (previous content: a sibling line or a type-permuted look-alike) is asked the same questions. Earlier boards are compared through the per-piece views and word by word (gold, six type words, occupancy).",
 "C15": COMMON + " Malformed relatives of the state's own text are parsed before every 16th round trip.",
 "C11": " W5b / W5d scripts are also started at move 1-3; positions one step from a mirror-symmetric board; game and image are asked alternately in every other twin game; the saturated twins of both states are compared as well.",
 "C16": " Also every ordered triple of the 263 action values printed back to back (18.2 M) and every sequence of four parses over {move, one-character token, derived token} (6.7 M parses), and every action value printed into a sink that fails after 0-3 bytes followed by every action value (277 k pairs); every action and square under 16 formatter options (width, fill, alignment, sign, zero, alternate, Debug inherited from Vec / Option), and everything once more on fresh threads started after all other work.",
 "C17": " The side / step / status families are also enumerated in a second un-hashed context (capture-this-turn flag set, later move, longer history); hashes of states reached by play are compared with those of every local variant (one square's content, one piece one square elsewhere, side, step, status incl. other piece types on the pending square).",
 "C18": " Also: fresh rounds (threads released together onto a never-queried turn, oracle computed afterwards), migration rounds (states built on one thread continued on another), simultaneous children (different turn-ending actions of one never-expanded state at the same instant), sibling and history duels, slot rounds (look-alikes moved through one state variable per thread), a sibling game built alone vs beside its live sibling, pool rounds; cold start on prepared states (first questions of a fresh process put to one parser-built mid-turn state by 4-16 threads at once); a deadlock detector (all threads in futex waits, no CPU time for 30 s, no child) turns a hang into the verdict threads_deadlocked.",
 "C20": " The long game is played twice in lock-step (a twin with its own history list): every exercised state is also probed with ==, Hash and a HashSet look-up against its twin; step-away-and-back states, a continued twin queried at step 3, and a second game on the same thread after everything was dropped; the last owner of the twin is overwritten with clone_from; a third set of survival children runs in an unoptimised (opt-level 0) build; a state reached by a capture inside a turn is kept until every owner of the long history is gone and dropped last; one child per profile builds, queries, drops and overwrites histories of 96 boundary lengths (2^8..2^19 and multiples of 2^16, -1 / +0..32).",
}
for k, v in EXTRA.items():
    t = CHECKS[k]
    CHECKS[k] = (t[0], t[1], t[2] + v, t[3])

def main():
    checks = []
    for pid, (tech, text, note, ref) in sorted(CHECKS.items()):
        checks.append({
            "property_id": pid,
            "quick_cmd": f"./check.sh {pid} quick",
            "thorough_cmd": f"./check.sh {pid} thorough",
            "evidence_file": f"/verif/evidence/{pid}.json",
            "replay_cmd_template": "./check.sh --replay {path}",
            "engine": "avm",
            "level_claimed": {"category": "exploration", "text": text, "design_ref": ref},
            "level_note": note,
            "technique": tech,
        })
    all_ids = [json.loads(l)["id"] for l in open("/verif/properties.jsonl")]
    na = [{"property_id": i, "reason": NOT_YET.get(i, "check under construction in this round; not claimed until its monitor is committed")} for i in all_ids if i not in CHECKS]
    m = {
        "version": 1,
        "setup_cmd": "./check.sh --setup",
        "hooks": {
            "guard": "cargo feature verif-hooks (off by default)",
            "enable": "the harness crate depends on /repo with features=[\"verif-hooks\"] (harness feature `hooks`, switched on by check.sh when /repo/Cargo.toml declares it)",
            "baseline_off_cmd": "cd /repo && cargo test --offline",
            "source_commits": HOOK_COMMITS,
            "add_only": True,
        },
        "engines": [{"name": "avm", "path": "/verif/harness", "serves_properties": sorted(CHECKS), "kind_free_text": "Rust harness: drives the real crate through its public API under workloads W1-W13 and judges every observed state/transition with per-property monitors (reference model, cross-query, metamorphic, sanitizer and subprocess observers)"}],
        "checks": checks,
        "not_applicable": na,
        "notes": "Technique family: runtime monitoring and sanitizers. Exit codes: 0 held, 1 violated, 2 inconclusive (never folded into the others). See DESIGN.md.",
    }
    json.dump(m, open("/verif/MANIFEST.json", "w"), indent=1)
    print("MANIFEST.json written:", len(checks), "checks,", len(na), "not claimed")

main()
