#!/usr/bin/env python3
"""Runs every quick (or thorough) check at several seeds and reports, per floor, the smallest
observed/min ratio - floors must stay far below what the unchanged tree produces."""
import json, subprocess, sys, os, time
tier = sys.argv[1] if len(sys.argv) > 1 else 'quick'
seeds = [int(x) for x in (sys.argv[2] if len(sys.argv) > 2 else '1,2,3').split(',')]
ids = sys.argv[3].split(',') if len(sys.argv) > 3 else ['C%02d' % k for k in range(1, 21)]
worst = {}
for cid in ids:
    for s in seeds:
        t0 = time.time()
        p = subprocess.run(['./check.sh', cid, tier], cwd='/verif', env=dict(os.environ, VERIF_SEED=str(s), AVM_OUT_DIR='/tmp/calib_out'), stdout=subprocess.PIPE, stderr=subprocess.STDOUT)
        dt = time.time() - t0
        out = p.stdout.decode()
        line = out.strip().splitlines()[0] if out.strip() else ''
        print(f'{cid} seed={s} exit={p.returncode} {dt:.1f}s {line[:150]}', flush=True)
        if p.returncode != 0:
            print(out[-1500:])
        e = json.load(open(f'/tmp/calib_out/evidence/{cid}.json'))
        for k, f in e['coverage']['floors'].items():
            r = f['observed'] / f['min'] if f['min'] else float('inf')
            key = (cid, k)
            if key not in worst or r < worst[key][0]:
                worst[key] = (r, f['observed'], f['min'], s)
print('\nfloors with observed/min < 8:')
for (cid, k), (r, o, m, s) in sorted(worst.items(), key=lambda x: x[1][0]):
    if r < 8:
        print(f'  {cid} {k}: ratio {r:.2f} observed {o} min {m} (seed {s})')
