#!/bin/bash
# Runs every registered check (quick by default) against /repo and reports exit codes.
cd "$(dirname "$0")"
TIER="${1:-quick}"
rc=0
for id in $(python3 -c "import json;print(' '.join(c['property_id'] for c in json.load(open('MANIFEST.json'))['checks']))"); do
  out=$(./check.sh "$id" "$TIER" 2>&1); e=$?
  echo "$id exit=$e $(echo "$out" | head -n 1 | cut -c1-170)"
  if [ $e -ne 0 ]; then echo "$out" | tail -n 12; rc=1; fi
done
exit $rc
