#!/usr/bin/env python3
"""C18 fallback, used by check.sh only when the main harness does not build against /repo:
if the engine itself builds but the auto-trait probe fails with E0277 (Send/Sync), that IS the
violation (the harness is a multi-threaded client, so it cannot compile either). Writes the
evidence file and prints the VIOLATION line; otherwise reports inconclusive."""
import json, os, subprocess, sys, time
verif = os.environ.get('VERIF_DIR', '/verif'); out = os.environ.get('AVM_OUT_DIR', verif)
target = os.environ.get('CARGO_TARGET_DIR', verif + '/target')
tier = os.environ.get('VERIF_TIER', 'quick'); seed = int(os.environ.get('VERIF_SEED', '1'))
t0 = time.time()
env = dict(os.environ, CARGO_NET_OFFLINE='true', CARGO_TERM_COLOR='never')
def run(cmd, cwd, tdir):
    p = subprocess.run(cmd, cwd=cwd, env=dict(env, CARGO_TARGET_DIR=tdir), stdout=subprocess.PIPE, stderr=subprocess.STDOUT)
    return p.returncode, p.stdout.decode(errors='replace')
rc_lib, out_lib = run(['cargo', 'build', '--offline', '--lib'], '/repo', target + '/repo-only')
if rc_lib != 0:
    print('INCONCLUSIVE property=C18 reason=the tree does not build'); sys.exit(2)
rc_p, out_p = run(['cargo', 'build', '--offline'], verif + '/probe_autotraits', target + '/probe')
tail = '\n'.join(out_p.splitlines()[-40:])
if rc_p != 0 and 'E0277' in out_p and ('Send' in out_p or 'Sync' in out_p):
    first = next((l for l in out_p.splitlines() if 'cannot be sent' in l or 'cannot be shared' in l), '')
    os.makedirs(out + '/replays', exist_ok=True); os.makedirs(out + '/evidence', exist_ok=True)
    rp = f'{out}/replays/C18-{seed}-0.json'
    json.dump({'kind': 'threads', 'observer': 'autotrait_probe', 'property': 'C18', 'clause': 'public_type_not_send_sync', 'diagnostic': tail}, open(rp, 'w'), indent=1)
    ev = {'property_id': 'C18', 'tier': tier, 'seed': seed, 'level': 'exploration', 'wall_s': round(time.time() - t0, 2), 'violations': 1,
          'coverage': {'evaluations': 15, 'distinct_nontrivial': 15, 'rule': 'fallback: the harness (a multi-threaded client) does not build against this tree; the engine builds alone and the auto-trait probe crate (15 Send + Sync requirements) fails with E0277',
                       'samples': [{'diagnostic_first_line': first}], 'verdict': 'violated', 'autotrait_probe': {'compiled': False, 'diagnostic_tail': tail}},
          'assumptions': ['compile-time observation only; the runtime observers could not be built']}
    json.dump(ev, open(f'{out}/evidence/C18.json', 'w'), indent=1)
    print(f'[C18] tier={tier} seed={seed} verdict=violated (auto-trait probe; harness does not build against this tree)')
    print('  clause=public_type_not_send_sync ' + first.strip())
    print(f'VIOLATION property=C18 replay={rp}')
    sys.exit(1)
print('INCONCLUSIVE property=C18 reason=the harness does not build against this tree and the auto-trait probe gives no Send/Sync diagnostic')
sys.exit(2)
