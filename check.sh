#!/bin/bash
# Entry point named in MANIFEST.json.
#   ./check.sh <property-id> [quick|thorough]     run the property's check against /repo's working tree
#   ./check.sh --replay <file>                    re-run one recorded witness
#   ./check.sh --setup                            build everything once (MANIFEST.setup_cmd)
# exit 0 = held, 1 = violated (prints VIOLATION property=<id> replay=<path>), 2 = inconclusive
set -u
VERIF_DIR="$(cd "$(dirname "${BASH_SOURCE[0]}")" && pwd)"
export VERIF_DIR
export CARGO_NET_OFFLINE=true
export CARGO_TERM_COLOR=never
REPO=/repo
H="$VERIF_DIR/harness"
export CARGO_TARGET_DIR="$VERIF_DIR/target"

features=""
if grep -q '^verif-hooks' "$REPO/Cargo.toml" 2>/dev/null; then features="--features hooks"; fi

build_main() { # $1 = profile (release|plain)
  local log="$CARGO_TARGET_DIR/build-$1.log"
  mkdir -p "$CARGO_TARGET_DIR"
  # first with the optional incremental-Zobrist API (feature zapi); if the tree under test changed
  # that API, fall back to the build without it (C08 then says which route it used)
  local f1="--features zapi"; [ -n "$features" ] && f1="--features hooks,zapi"
  if (cd "$H" && cargo build --offline --profile "$1" $f1 >"$log" 2>&1); then return 0; fi
  if ! (cd "$H" && cargo build --offline --profile "$1" $features >"$log" 2>&1); then
    echo "build of the harness against $REPO failed (profile $1); last lines:"
    tail -n 25 "$log"
    return 1
  fi
}
bin_of() { if [ "$1" = release ]; then echo "$CARGO_TARGET_DIR/release/avm"; else echo "$CARGO_TARGET_DIR/$1/avm"; fi; }

case "${1:-}" in
  --setup)
    build_main release || exit 1
    build_main plain || exit 1
    build_main opt0 || exit 1
    if [ -x "$VERIF_DIR/sanit/setup.sh" ]; then "$VERIF_DIR/sanit/setup.sh" || exit 1; fi
    echo "setup ok"; exit 0;;
  --replay)
    build_main release || { echo "INCONCLUSIVE property=replay reason=build failed"; exit 2; }
    exec "$(bin_of release)" replay "$2" --verif-dir "$VERIF_DIR";;
  "") echo "usage: $0 <property-id> [quick|thorough] | --replay <file> | --setup"; exit 3;;
esac

ID="$1"; TIER="${2:-${VERIF_TIER:-quick}}"
export VERIF_TIER="$TIER"
if ! build_main release; then
  if [ "$ID" = C18 ]; then exec python3 "$VERIF_DIR/c18_probe_fallback.py"; fi
  echo "INCONCLUSIVE property=$ID reason=the tree does not build"
  exit 2
fi
case "$ID" in
  C15|C16|C20) build_main plain || { echo "INCONCLUSIVE property=$ID reason=plain-profile build failed"; exit 2; }
               export AVM_PLAIN_BIN="$(bin_of plain)";;
esac
if [ "$ID" = C20 ]; then
  build_main opt0 || { echo "INCONCLUSIVE property=$ID reason=unoptimised-profile build failed"; exit 2; }
  export AVM_OPT0_BIN="$(bin_of opt0)"
fi
export AVM_BIN="$(bin_of release)"
exec "$AVM_BIN" check "$ID" --tier "$TIER" --seed "${VERIF_SEED:-1}" --verif-dir "$VERIF_DIR"
