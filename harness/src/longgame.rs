//! C20 — W13 long capture-free games; subprocess observers (survival on a 2 MiB thread, VmStk).

use crate::eng::*;
use crate::gen;
use crate::model::*;
use crate::rng::Rng;
use crate::runner::*;
use crate::sink::Sink;
use arimaa_engine_step::*;
use serde_json::{json, Map, Value};
use std::collections::HashSet;
use std::process::{Command, Stdio};

fn vmstk_kb() -> u64 {
    std::fs::read_to_string("/proc/self/status")
        .ok()
        .and_then(|s| s.lines().find(|l| l.starts_with("VmStk:")).and_then(|l| l.split_whitespace().nth(1).and_then(|x| x.parse().ok())))
        .unwrap_or(0)
}

/// Play `turns` legal capture-free turns. Steps come from valid_actions_no_rep(); the harness keeps
/// the exact set of turn-start (board, side) pairs and only ends a turn on a position never seen
/// before (and different from the turn start), so the game is legal under the repetition rules
/// without asking the engine to scan its O(L) history every turn.
fn play_long(turns: u64, seed: u64) -> Result<(GameState, GameState, GameState, Value), String> {
    let mut rng = Rng::new(seed, 0x2000);
    let b0 = gen::long_game_position();
    let mut g = inject(&b0, true, 2);
    // the same game played a second time, action by action: an equal state whose history list is a
    // separate object (not a clone sharing nodes)
    let mut twin = inject(&b0, true, 2);
    let mut board = b0;
    let mut gold = true;
    let mut seen: HashSet<(u64, u64)> = HashSet::new();
    let key = |b: &MBoard, gold: bool| (b.fingerprint(), mix(fnv(&b.0[16..48]), gold as u64));
    seen.insert(key(&board, gold));
    let mut spot_checks = 0u64;
    let mut mid: Option<GameState> = None;
    let mut multi_step_turns = 0u64;
    let t0 = std::time::Instant::now();
    for t in 0..turns {
        // choose 1..3 steps of own non-rabbit pieces without capture, then pass
        let mut tries = 0;
        'turn: loop {
            tries += 1;
            if tries > 200 {
                return Err(format!("could not find a fresh capture-free turn at turn {}", t));
            }
            let nsteps = 1 + rng.below(3);
            let mut cur = g.clone();
            let mut cb = board;
            let mut pend = Pend::None;
            let mut acts: Vec<Code> = vec![];
            // never uses a fourth step: the turn always ends by a pass on a fresh position
            while acts.len() < 3 && (acts.len() < nsteps || matches!(pend, Pend::Push(..))) {
                let k = acts.len();
                let offered = codes_of(&cur.valid_actions_no_rep());
                let ok = |c: &Code| {
                    let cl = cb.0[code_sq(*c)];
                    cl != 0 && strength(cl) != 0 && cb.apply(gold, pend, code_sq(*c), code_dir(*c)).map_or(false, |a| a.captured.is_empty() && !TRAPS.contains(&a.to) && (1..=6).contains(&(a.to / 8)))
                };
                let cands: Vec<Code> = offered.iter().copied().filter(|c| is_step(*c)).filter(ok).collect();
                let own: Vec<Code> = cands.iter().copied().filter(|c| is_gold(cb.0[code_sq(*c)]) == gold).collect();
                // enemy pieces are only displaced when no own piece can step (or rarely), and only
                // early enough in the turn for the push to be completed before the third step
                let pool: &[Code] = if !own.is_empty() && (matches!(pend, Pend::Push(..)) || k >= 2 || tries < 20 && rng.chance(31, 32)) { &own } else if k <= 1 { &cands } else { &own };
                if pool.is_empty() {
                    continue 'turn;
                }
                let c = pool[rng.below(pool.len())];
                let a = cb.apply(gold, pend, code_sq(c), code_dir(c)).unwrap();
                cb = a.board;
                pend = a.pend;
                cur = cur.take_action(&code_act(c));
                acts.push(c);
            }
            if matches!(pend, Pend::Push(..)) {
                continue 'turn;
            }
            if cb == board || seen.contains(&key(&cb, !gold)) {
                continue 'turn;
            }
            // legality spot check against the engine's own (O(L)) repetition-aware list
            // (only on turns of one or two steps: nothing of this game is asked about a fourth step before the end,
            // so whatever the engine builds lazily for that question is built over the whole history at once)
            if t % 10_000 == 0 && acts.len() <= 2 {
                if !cur.valid_actions().contains(&Action::Pass) {
                    return Err(format!("turn {}: harness-chosen pass is not in valid_actions()", t));
                }
                spot_checks += 1;
            }
            cur = cur.take_action(&Action::Pass);
            for c in &acts {
                twin = twin.take_action(&code_act(*c));
            }
            twin = twin.take_action(&Action::Pass);
            if acts.len() > 1 {
                multi_step_turns += 1;
            }
            g = cur;
            if t == turns / 2 {
                mid = Some(g.clone()); // an older state of the same game, kept alive until the end
            }
            board = cb;
            gold = !gold;
            seen.insert(key(&board, gold));
            break;
        }
    }
    let hist_len = g.unwrap_play_phase().hash_history().len() as u64;
    if decode_board(g.piece_board()) != board {
        return Err("engine board diverged from the harness board".into());
    }
    let info = json!({"turns": turns, "history_len": hist_len, "spot_checks": spot_checks, "multi_step_turns": multi_step_turns, "play_seconds": t0.elapsed().as_secs_f64(), "turns_per_second": turns as f64 / t0.elapsed().as_secs_f64().max(1e-9)});
    if hist_len != turns + 1 {
        return Err(format!("history was not built: hash_history().len() = {} after {} turns", hist_len, turns));
    }
    let mid = mid.unwrap_or_else(|| g.clone());
    Ok((g, mid, twin, info))
}

/// A few plain turns (one or more non-capturing steps of non-rabbit pieces, then a pass), then three steps and the
/// step-3 queries (the repetition filter for fourth steps, has_move, result).
fn advance_and_query_step3(mut g: GameState, turns: u32) -> (GameState, u32) {
    let mut queries = 0u32;
    let plain = |g: &GameState| -> Option<Action> {
        let acts = g.valid_actions();
        acts.iter().find(|a| matches!(a, Action::Move(s, _) if g.piece_board().piece_type_at_square(s).map_or(false, |p| p != Piece::Rabbit) && g.trapped_animal_for_action(a).is_none())).copied()
    };
    for t in 0..=turns {
        let steps = if t == turns { 3 } else { 1 + (t % 2) };
        for _ in 0..steps {
            match plain(&g) {
                Some(a) => g = g.take_action(&a),
                None => break,
            }
        }
        if g.current_step() == 3 {
            let _ = (g.valid_actions().len(), g.valid_actions_no_rep().len(), g.is_terminal(), g.has_move(g.piece_board()), g.can_pass(true));
            queries += 1;
        }
        if g.current_step() > 0 {
            let acts = g.valid_actions();
            if acts.contains(&Action::Pass) {
                g = g.take_action(&Action::Pass);
            } else if let Some(a) = acts.first() {
                g = g.take_action(a);
            } else {
                break;
            }
        }
    }
    (g, queries)
}

/// A second, short game on the same thread after everything of the long one has been discarded: whatever the
/// engine still remembers of the long history on this thread is replaced now.
fn second_game(turns: u32) -> u32 {
    let mut g = inject(&gen::long_game_position(), false, 2);
    let mut q = 0;
    for _ in 0..turns / 8 {
        let (ng, n) = advance_and_query_step3(g, 7);
        g = ng;
        q += n;
        if g.is_terminal().is_some() {
            break;
        }
    }
    q
}

/// The operations the property names: query, clone, drop.
/// Every query on one state, plus comparison / hashing against an equal state with a separately built history.
fn probe(cur: &GameState, twin: &GameState) -> u32 {
    use std::hash::{Hash, Hasher};
    let _ = (cur.valid_actions().len(), cur.valid_actions_no_rep().len(), cur.is_terminal(), cur.has_move(cur.piece_board()), cur.can_pass(true), cur.can_pass(false), cur.transposition_hash(), cur.to_string().len());
    for a in cur.valid_actions() {
        let _ = cur.trapped_animal_for_action(&a);
    }
    if cur.is_play_phase() {
        for i in 0..=cur.current_step() {
            let _ = cur.piece_board_for_step(i).all_pieces;
        }
    }
    let mut n = 0u32;
    if cur == twin {
        n += 1;
    }
    let (mut h1, mut h2) = (std::collections::hash_map::DefaultHasher::new(), std::collections::hash_map::DefaultHasher::new());
    cur.hash(&mut h1);
    twin.hash(&mut h2);
    if h1.finish() == h2.finish() {
        n += 1;
    }
    let mut set: HashSet<GameState> = HashSet::new();
    set.insert(cur.clone());
    if set.contains(twin) {
        n += 1;
    }
    n
}

fn exercise(g: GameState, mid: GameState, twin: GameState, unwind: bool) -> Value {
    let before = vmstk_kb();
    let mut twin_agreements = probe(&g, &twin);
    let mut twin_probes = 1u32;
    let n_actions = g.valid_actions().len();
    let n_norep = g.valid_actions_no_rep().len();
    let term = g.is_terminal().is_some();
    let cp = g.can_pass(true);
    let hm = g.has_move(g.piece_board()).is_none();
    let text_len = g.to_string().len();
    let hash = g.transposition_hash();
    let eq = g == mid;
    // the history list's own queries
    let (hl, hcount, hhead, tail_len) = {
        let h = g.unwrap_play_phase().hash_history();
        let t = h.tail(); // a new list sharing all but the first node
        (h.len(), h.iter().count(), h.head().map(|z| z.board_state_hash()), t.len())
    };
    // tails and iterators of the long list
    let (tail_iter_count, tail_chain_len, partial_iter) = {
        let h = g.unwrap_play_phase().hash_history();
        let t = h.tail();
        let c = t.iter().count();
        let mut tt = t.tail();
        for _ in 0..1000 {
            tt = tt.tail();
        }
        let mut it = h.iter();
        let mut seen = 0u32;
        while seen < 10 && it.next().is_some() {
            seen += 1;
        }
        drop(it); // dropped mid-way
        (c, tt.len(), seen)
    };
    // mid-turn queries at steps 1..3 on top of the long history, then a pass at step 3
    let mut mid_turn_queries = 0u32;
    {
        let mut cur = g.clone();
        let mut cur2 = twin.clone();
        for _ in 0..3 {
            let acts = cur.valid_actions_no_rep();
            let pick = acts.iter().find(|a| matches!(a, Action::Move(s, _) if cur.piece_board().piece_type_at_square(s).map_or(false, |p| p != Piece::Rabbit) && cur.trapped_animal_for_action(a).is_none()));
            let a = match pick {
                Some(a) => *a,
                None => break,
            };
            cur = cur.take_action(&a);
            cur2 = cur2.take_action(&a);
            let _ = (cur.valid_actions().len(), cur.is_terminal(), cur.can_pass(true), cur.has_move(cur.piece_board()), cur.transposition_hash(), cur.to_string().len());
            twin_agreements += probe(&cur, &cur2);
            twin_probes += 1;
            mid_turn_queries += 1;
        }
        if cur.current_step() == 3 && cur.valid_actions().contains(&Action::Pass) {
            let after = cur.take_action(&Action::Pass);
            let _ = after.valid_actions().len();
            mid_turn_queries += 1;
        }
    }
    // step away and straight back: the board equals the turn-start position (pass allowed by the rules
    // alone, withheld by the repetition rules), at steps 2 and - after another step - 3
    let mut step_back_states = 0u32;
    {
        let acts = g.valid_actions();
        for a in acts.iter().take(40) {
            if let Action::Move(s, d) = a {
                if g.piece_board().piece_type_at_square(s) == Some(Piece::Rabbit) || g.trapped_animal_for_action(a).is_some() {
                    continue;
                }
                let one = g.take_action(a);
                let back = one.valid_actions_no_rep().into_iter().find(|b| matches!(b, Action::Move(s2, _) if decode_board(one.piece_board()).0[s2.index() as usize] != 0) && decode_board(one.take_action(b).piece_board()) == decode_board(g.piece_board()));
                let _ = (s, d);
                if let Some(b) = back {
                    let two = one.take_action(&b);
                    let two2 = twin.take_action(a).take_action(&b);
                    twin_agreements += probe(&two, &two2);
                    twin_probes += 1;
                    step_back_states += 1;
                    if let Some(c) = two.valid_actions().first() {
                        let three = two.take_action(c);
                        twin_agreements += probe(&three, &two2.take_action(c));
                        twin_probes += 1;
                    }
                    if step_back_states >= 3 {
                        break;
                    }
                }
            }
        }
    }
    // a state with a pending push on top of the long history (wander on for a few turns until a push
    // start is offered), queried before and after the completion
    let mut pending_push_queried = false;
    {
        let mut cur = g.clone();
        let mut cur2 = twin.clone();
        'outer: for k in 0..300u32 {
            let acts = cur.valid_actions();
            if acts.is_empty() || (cur.current_step() == 0 && cur.is_terminal().is_some()) {
                break;
            }
            let gold = cur.is_p1_turn_to_move();
            for a in &acts {
                if let Action::Move(sq, _) = a {
                    let pb = cur.piece_board();
                    let enemy = (pb.p1_pieces >> sq.index() & 1 == 1) != gold;
                    if enemy && cur.trapped_animal_for_action(a).is_none() {
                        let after = cur.take_action(a);
                        if matches!(after.unwrap_play_phase().push_pull_state(), PushPullState::MustCompletePush(..)) {
                            let _ = (after.valid_actions().len(), after.valid_actions_no_rep().len(), after.is_terminal(), after.has_move(after.piece_board()), after.can_pass(true), after.transposition_hash(), after.to_string().len());
                            // the same pending-push state on the separately built twin history: ==, Hash, HashSet probe
                            let after2 = cur2.take_action(a);
                            twin_agreements += probe(&after, &after2);
                            twin_agreements += probe(&after2, &after);
                            twin_probes += 2;
                            if let Some(c) = after.valid_actions().first() {
                                let done = after.take_action(c);
                                let _ = (done.valid_actions().len(), done.is_terminal());
                            }
                            pending_push_queried = true;
                            break 'outer;
                        }
                    }
                }
            }
            let pick = acts[(k as usize * 5 + 1) % acts.len()];
            if cur.trapped_animal_for_action(&pick).is_some() {
                continue;
            }
            cur = cur.take_action(&pick);
            cur2 = cur2.take_action(&pick);
        }
    }
    // the twin's line continued by 1..8 turns of its own (a history that does not descend from g's, a few
    // entries longer), queried at step 3 right after g's line was
    let twin_hist = twin.unwrap_play_phase().hash_history().len();
    let (twin_later, later_queries) = advance_and_query_step3(twin.clone(), 1 + (twin_hist % 8) as u32);
    let twin_later_hist = twin_later.unwrap_play_phase().hash_history().len();
    drop(twin_later);
    // the last owner of the second long list is not dropped but overwritten in place with a fresh short game
    let mut twin = twin;
    let short = inject(&gen::long_game_position(), true, 2);
    twin.clone_from(&short);
    let twin_after_clone_from = twin.unwrap_play_phase().hash_history().len();
    drop(twin);
    let c = g.clone();
    drop(c);
    // a successor shares the history; dropping the predecessor must not free it
    let first = g.valid_actions_no_rep()[0];
    let succ = g.take_action(&first);
    // finish the successor's turn by a pass if possible (appends to the shared history)
    let succ2 = if succ.valid_actions().contains(&Action::Pass) { Some(succ.take_action(&Action::Pass)) } else { None };
    // a capture after the long capture-free stretch: the engine starts a fresh history inside
    // take_action and lets go of the old one (the turn is continued for a few steps if no capturing
    // step is offered right away)
    let mut capture_taken = false;
    let mut extra_steps = 0u32;
    // a state reached by a capture on step 1-3 of a turn (the turn goes on): it is kept until every
    // owner of the long history is gone and is then the last thing of the game to be dropped
    let mut in_turn_after: Option<GameState> = None;
    {
        let mut cur = g.clone();
        'search: for _ in 0..400 {
            let acts = cur.valid_actions();
            if acts.is_empty() || (cur.current_step() == 0 && cur.is_terminal().is_some()) {
                break;
            }
            for a in &acts {
                if cur.trapped_animal_for_action(a).is_some() {
                    let after = cur.take_action(a);
                    // the new state and its successors must be usable
                    let _ = after.valid_actions().len();
                    let _ = after.is_terminal();
                    capture_taken = true;
                    if after.current_step() != 0 {
                        in_turn_after = Some(after);
                        break 'search;
                    }
                    drop(after);
                    break;
                }
            }
            // wander on without capturing: prefer steps of non-rabbit pieces, fall back to anything offered
            let quiet: Vec<Action> = acts.iter().filter(|a| cur.trapped_animal_for_action(a).is_none()).copied().collect();
            if quiet.is_empty() {
                break;
            }
            let pick = quiet.iter().find(|a| matches!(a, Action::Move(s, _) if cur.piece_board().piece_type_at_square(s).map_or(false, |p| p != Piece::Rabbit) && (extra_steps + s.index() as u32) % 3 != 0)).copied().unwrap_or(quiet[(extra_steps as usize * 7 + 3) % quiet.len()]);
            cur = cur.take_action(&pick);
            extra_steps += 1;
        }
    }
    let c2 = g.clone();
    drop(g); // not the last owner: c2, succ and succ2 still hold the list
    drop(succ);
    drop(succ2);
    let mid_vm = vmstk_kb();
    drop(c2); // last owner of the newer half: freed down to the node shared with `mid`
    let after_newer = vmstk_kb();
    // the older state is still fully usable, then releases the older half
    let mid_actions = mid.valid_actions().len();
    let mid_hist = mid.unwrap_play_phase().hash_history().len();
    // discard the last owner of the older half: plainly, or (unwind = true) while a thread that owns
    // it is unwinding from a panic - an ordinary, catchable panic must stay one
    let mut unwound = false;
    if unwind {
        let h = std::thread::Builder::new()
            .stack_size(2 << 20)
            .spawn(move || {
                let owned = mid;
                let n = owned.unwrap_play_phase().hash_history().len();
                if n > 0 {
                    std::panic::panic_any("deliberate panic while owning a long game");
                }
                drop(owned);
            })
            .unwrap();
        unwound = h.join().is_err();
    } else {
        drop(mid);
    }
    // every owner of the long history is gone; the state inside the capturing turn goes last
    let mut in_turn_capture_state_dropped_last = false;
    if let Some(s) = in_turn_after {
        let c = s.clone();
        let _ = (c.valid_actions().len(), c.can_pass(true), c.transposition_hash());
        if c.valid_actions().contains(&Action::Pass) {
            let e = c.take_action(&Action::Pass);
            let _ = e.valid_actions().len();
            drop(e);
        }
        drop(c);
        drop(s);
        in_turn_capture_state_dropped_last = true;
    }
    let after = vmstk_kb();
    json!({"in_turn_capture_state_dropped_last": in_turn_capture_state_dropped_last, "vmstk_before_kb": before, "vmstk_mid_kb": mid_vm, "vmstk_after_newer_half_kb": after_newer, "vmstk_after_kb": after, "valid_actions": n_actions, "valid_actions_no_rep": n_norep, "terminal": term, "can_pass": cp, "has_move": hm, "printed_len": text_len, "hash": format!("{:#018x}", hash), "eq_mid": eq, "history_len": hl, "history_iter_count": hcount, "history_head": hhead.map(|h| format!("{:#018x}", h)), "tail_len": tail_len, "tail_iter_count": tail_iter_count, "tail_chain_len": tail_chain_len, "iterator_dropped_after": partial_iter, "mid_turn_query_rounds": mid_turn_queries, "pending_push_state_queried": pending_push_queried, "bytes_formatted_by_trace_logger": crate::eng::LOGGED_BYTES.load(std::sync::atomic::Ordering::Relaxed), "mid_state_valid_actions": mid_actions, "mid_state_history_len": mid_hist, "capture_after_long_stretch_taken": capture_taken, "extra_steps_before_capture": extra_steps, "dropped_during_unwinding": unwound, "twin_history_len": twin_hist, "twin_probes": twin_probes, "twin_agreements_of_3_per_probe": twin_agreements, "step_back_states_queried": step_back_states, "twin_continued_to_history_len": twin_later_hist, "step3_queries_on_continued_twin": later_queries, "last_owner_overwritten_with_clone_from_history_len": twin_after_clone_from})
}

/// A state whose history list has `n` entries, built with the public constructors (cheap way to
/// get the long list of a long capture-free game for the concurrent-drop observer).
fn synthetic_long_state(n: u64) -> GameState {
    let b = gen::long_game_position();
    let pb = piece_board_of(&b);
    let h = Zobrist::from_piece_board(pb.piece_board(), true, 0);
    let h2 = Zobrist::from_piece_board(pb.piece_board(), false, 0);
    let mut l = List::new();
    for i in 0..n {
        l = l.append(if i % 2 == 0 { h2 } else { h });
    }
    GameState::new(true, 2 + (n / 2) as usize, Phase::PlayPhase(PlayPhase::initial(h, l)), pb, h)
}

/// k threads (2 MiB stacks) each own one clone of a long-history state and drop it at the same
/// instant; the main thread has given up its own handle. Repeated `rounds` times.
fn concurrent_drop(n: u64, k: usize, rounds: u64, stack: usize) -> Result<Value, String> {
    use std::sync::atomic::{AtomicUsize, Ordering};
    use std::sync::Arc;
    for _ in 0..rounds {
        let g = synthetic_long_state(n);
        // a state built with GameState::new around a supplied long list is queried like any other
        let _ = (g.valid_actions().len(), g.is_terminal(), g.can_pass(true), g.to_string().len(), g.unwrap_play_phase().hash_history().tail().len());
        let gate = Arc::new(AtomicUsize::new(0));
        let hs: Vec<_> = (0..k)
            .map(|_| {
                let mine = g.clone();
                let gate = Arc::clone(&gate);
                std::thread::Builder::new()
                    .stack_size(stack)
                    .spawn(move || {
                        gate.fetch_add(1, Ordering::AcqRel);
                        while gate.load(Ordering::Acquire) < k + 1 {
                            std::hint::spin_loop();
                        }
                        drop(mine);
                    })
                    .unwrap()
            })
            .collect();
        while gate.load(Ordering::Acquire) < k {
            std::hint::spin_loop();
        }
        // give up the main thread's handle on a big stack (this one is not the observed drop)
        let t = std::thread::Builder::new().stack_size(64 << 20).spawn(move || drop(g)).unwrap();
        t.join().map_err(|_| "main handle drop panicked".to_string())?;
        gate.fetch_add(1, Ordering::AcqRel);
        for h in hs {
            h.join().map_err(|_| "dropper thread panicked".to_string())?;
        }
    }
    Ok(json!({"turns": n, "history_len": n, "threads": k, "rounds": rounds, "spot_checks": 0}))
}

/// History lengths around the boundaries of narrow counters (2^8 .. 2^19 and multiples of 2^16, plus a few
/// entries): a state with such a history is queried, copied, and dropped as the only owner; another one is
/// overwritten in place. Runs on the child's 2 MiB thread.
fn boundary_length_drops() -> Result<Value, String> {
    let mut lens: Vec<u64> = vec![];
    for p in 8..=19u32 {
        for r in [0u64, 1, 2, 7, 31, 32] {
            lens.push((1u64 << p) + r);
        }
        lens.push((1u64 << p) - 1);
    }
    for k in [3u64, 5, 6] {
        for r in [0u64, 1, 5, 32] {
            lens.push(k * 65536 + r);
        }
    }
    let short = synthetic_long_state(3);
    let mut n_drops = 0u64;
    let mut len_mismatches = 0u64;
    for (i, n) in lens.iter().enumerate() {
        let g = synthetic_long_state(*n);
        let hl = g.unwrap_play_phase().hash_history().len();
        if hl as u64 != *n {
            len_mismatches += 1; // not this property's concern; the drop below still is
        }
        let _ = (g.valid_actions().len(), g.is_terminal(), g.can_pass(true));
        if i % 2 == 0 {
            let c = g.clone();
            drop(g);
            drop(c); // last owner
        } else {
            let mut g = g;
            g.clone_from(&short); // last owner overwritten in place
            drop(g);
        }
        n_drops += 1;
    }
    Ok(json!({"turns": 0, "history_len": 0, "longest_boundary_length": lens.iter().max().copied().unwrap_or(0), "boundary_length_drops": n_drops, "reported_len_differs_from_entries_appended": len_mismatches, "lengths": lens, "spot_checks": 0}))
}

/// Child process entry: `avm child-longgame <turns> <seed> <thread|main|concurrent> <stack_bytes>`
pub fn child(args: &[String]) -> i32 {
    let turns: u64 = args.first().and_then(|s| s.parse().ok()).unwrap_or(1000);
    let seed: u64 = args.get(1).and_then(|s| s.parse().ok()).unwrap_or(1);
    let mode = args.get(2).map(|s| s.as_str()).unwrap_or("thread");
    let stack: usize = args.get(3).and_then(|s| s.parse().ok()).unwrap_or(2 << 20);
    if mode == "concurrent" {
        return match concurrent_drop(turns, 2 + (seed % 3) as usize, 60, stack) {
            Ok(v) => {
                println!("CHILD-JSON {}", v);
                0
            }
            Err(e) => {
                println!("CHILD-ERR {}", e);
                4
            }
        };
    }
    let mode_owned = mode.to_string();
    let run = move || -> Result<Value, String> {
        let mode = mode_owned.as_str();
        if mode == "lengths" {
            return boundary_length_drops();
        }
        let (g, mid, twin, mut info) = play_long(turns, seed)?;
        let ex = exercise(g, mid, twin, mode != "main");
        info["exercise"] = ex;
        // everything of the long game is gone now; a second game on the same thread
        info["second_game_step3_queries"] = json!(second_game(96));
        Ok(info)
    };
    let res = if mode == "main" {
        run()
    } else {
        std::thread::Builder::new().stack_size(stack).spawn(run).unwrap().join().unwrap_or_else(|_| Err("thread panicked".into()))
    };
    match res {
        Ok(v) => {
            println!("CHILD-JSON {}", v);
            0
        }
        Err(e) => {
            println!("CHILD-ERR {}", e);
            4
        }
    }
}

struct ChildOut {
    status: String,
    signal: Option<i32>,
    code: Option<i32>,
    json: Option<Value>,
    err: Option<String>,
    stderr_tail: String,
    overflow_msg: bool,
}

fn run_child(bin: &str, turns: u64, seed: u64, mode: &str, stack: usize) -> ChildOut {
    use std::os::unix::process::ExitStatusExt;
    let mut cmd = if mode == "main" {
        let mut c = Command::new("sh");
        c.arg("-c").arg(format!("ulimit -s unlimited 2>/dev/null || ulimit -s 4194304; exec \"$0\" child-longgame {} {} main {}", turns, seed, stack)).arg(bin);
        c
    } else {
        let mut c = Command::new(bin);
        c.args(["child-longgame", &turns.to_string(), &seed.to_string(), mode, &stack.to_string()]);
        c
    };
    // generous wall-clock watchdog per child: its firing is *inconclusive*, never a verdict
    let limit = std::time::Duration::from_secs(std::env::var("AVM_CHILD_TIMEOUT_S").ok().and_then(|s| s.parse().ok()).unwrap_or(240 + turns / 2000));
    let started = std::time::Instant::now();
    let child = cmd.stdin(Stdio::null()).stdout(Stdio::piped()).stderr(Stdio::piped()).spawn();
    let mut child = match child {
        Ok(c) => c,
        Err(e) => return ChildOut { status: format!("spawn failed: {}", e), signal: None, code: None, json: None, err: Some(e.to_string()), stderr_tail: String::new(), overflow_msg: false },
    };
    loop {
        match child.try_wait() {
            Ok(Some(_)) => break,
            Ok(None) => {
                if started.elapsed() > limit {
                    let _ = child.kill();
                    let _ = child.wait();
                    return ChildOut { status: format!("watchdog: killed after {} s", limit.as_secs()), signal: None, code: None, json: None, err: Some("watchdog".into()), stderr_tail: String::new(), overflow_msg: false };
                }
                std::thread::sleep(std::time::Duration::from_millis(50));
            }
            Err(e) => return ChildOut { status: format!("wait failed: {}", e), signal: None, code: None, json: None, err: Some(e.to_string()), stderr_tail: String::new(), overflow_msg: false },
        }
    }
    let out = child.wait_with_output();
    match out {
        Err(e) => ChildOut { status: format!("spawn failed: {}", e), signal: None, code: None, json: None, err: Some(e.to_string()), stderr_tail: String::new(), overflow_msg: false },
        Ok(o) => {
            let so = String::from_utf8_lossy(&o.stdout).to_string();
            let se = String::from_utf8_lossy(&o.stderr).to_string();
            let json = so.lines().find(|l| l.starts_with("CHILD-JSON ")).and_then(|l| serde_json::from_str(&l[11..]).ok());
            let err = so.lines().find(|l| l.starts_with("CHILD-ERR ")).map(|l| l[10..].to_string());
            let tail: String = se.chars().rev().take(300).collect::<String>().chars().rev().collect();
            ChildOut { status: format!("{:?}", o.status), signal: o.status.signal(), code: o.status.code(), json, err, overflow_msg: se.contains("overflowed its stack") || se.contains("stack overflow"), stderr_tail: tail }
        }
    }
}

pub fn c20(cfg: &Cfg) -> i32 {
    let mut sink = Sink::new();
    let mut inconclusive: Vec<String> = vec![];
    let mut obs: Vec<Value> = vec![];
    let monitor_bin = std::env::current_exe().map(|p| p.to_string_lossy().to_string()).unwrap_or_default();
    let mut bins = vec![("monitor profile (overflow checks, debug assertions)", monitor_bin)];
    match std::env::var("AVM_PLAIN_BIN") {
        Ok(p) => bins.push(("plain release", p)),
        Err(_) => inconclusive.push("AVM_PLAIN_BIN not set (run through check.sh): plain-release observation missing".into()),
    }
    let opt0_bin = std::env::var("AVM_OPT0_BIN").ok();
    if opt0_bin.is_none() {
        inconclusive.push("AVM_OPT0_BIN not set (run through check.sh): unoptimised-build observation missing".into());
    }
    let survive_l: Vec<u64> = match cfg.tier {
        Tier::Quick => vec![150_000, 400_000],
        Tier::Thorough => vec![150_000, 1_000_000, 3_000_000],
    };
    let vm_l: [u64; 3] = [1000, 50_000, 400_000];
    let seeds: Vec<u64> = match cfg.tier {
        Tier::Quick => vec![cfg.seed],
        Tier::Thorough => vec![cfg.seed, cfg.seed + 1],
    };
    // run children in parallel (each is single-threaded)
    let mut jobs: Vec<(String, String, u64, u64, &'static str)> = vec![];
    for (pname, bin) in &bins {
        for s in &seeds {
            for l in &survive_l {
                jobs.push((pname.to_string(), bin.clone(), *l, *s, "thread"));
            }
        }
        for l in vm_l {
            jobs.push((pname.to_string(), bin.clone(), l, cfg.seed, "main"));
        }
        jobs.push((pname.to_string(), bin.clone(), 0, cfg.seed, "lengths"));
        for (i, s) in seeds.iter().enumerate() {
            jobs.push((pname.to_string(), bin.clone(), 300_000, *s + i as u64, "concurrent"));
            jobs.push((pname.to_string(), bin.clone(), 300_000, *s + i as u64 + 1, "concurrent"));
        }
    }
    // the unoptimised build: survival runs only (the shortest length, plus 1e6 turns in the thorough tier)
    if let Some(b) = &opt0_bin {
        for s in &seeds {
            jobs.push(("unoptimised build (opt-level 0)".to_string(), b.clone(), 150_000, *s, "thread"));
            if cfg.tier == Tier::Thorough {
                jobs.push(("unoptimised build (opt-level 0)".to_string(), b.clone(), 1_000_000, *s, "thread"));
            }
        }
    }
    let results: Vec<(usize, ChildOut)> = std::thread::scope(|sc| {
        let hs: Vec<_> = jobs.iter().enumerate().map(|(i, j)| sc.spawn(move || (i, run_child(&j.1, j.2, j.3, j.4, 2 << 20)))).collect();
        hs.into_iter().map(|h| h.join().unwrap()).collect()
    });
    let mut vm: std::collections::BTreeMap<String, Vec<(u64, i64)>> = Default::default();
    for (i, r) in results {
        let (pname, _bin, l, seed, mode) = &jobs[i];
        sink.count("children_run");
        let mut o = json!({"profile": pname, "turns": l, "seed": seed, "mode": mode, "status": r.status, "result": r.json, "error": r.err});
        if r.json.is_some() && r.code == Some(0) {
            let j = r.json.as_ref().unwrap();
            sink.add("turns_played", *l);
            sink.max("longest_history_reached", j["history_len"].as_u64().unwrap_or(0));
            sink.add("engine_spot_checks_of_legality", j["spot_checks"].as_u64().unwrap_or(0));
            sink.distinct(mix(*l, mix(*seed, fnv(pname.as_bytes()) ^ fnv(mode.as_bytes()))));
            if j["exercise"]["capture_after_long_stretch_taken"].as_bool() == Some(true) {
                sink.count("runs_with_capture_after_long_stretch");
            }
            sink.add("twin_history_probes_eq_hash_hashset", j["exercise"]["twin_probes"].as_u64().unwrap_or(0));
            sink.add("twin_history_probe_agreements", j["exercise"]["twin_agreements_of_3_per_probe"].as_u64().unwrap_or(0));
            if j["exercise"]["step_back_states_queried"].as_u64().unwrap_or(0) > 0 {
                sink.count("runs_with_step_back_states_queried");
            }
            if j["exercise"]["step3_queries_on_continued_twin"].as_u64().unwrap_or(0) > 0 {
                sink.count("runs_with_step3_query_on_continued_twin");
            }
            if j["second_game_step3_queries"].as_u64().unwrap_or(0) > 0 {
                sink.count("runs_with_second_game_on_same_thread");
            }
            if j["exercise"]["pending_push_state_queried"].as_bool() == Some(true) {
                sink.count("runs_with_pending_push_state_queried");
            }
            if j["exercise"]["dropped_during_unwinding"].as_bool() == Some(true) {
                sink.count("runs_with_last_owner_dropped_during_unwinding");
            }
            if j["exercise"]["in_turn_capture_state_dropped_last"].as_bool() == Some(true) {
                sink.count("runs_with_in_turn_capture_state_dropped_last");
            }
            if *mode == "lengths" {
                sink.add("boundary_length_drops", j["boundary_length_drops"].as_u64().unwrap_or(0));
            } else if *mode == "thread" {
                sink.count("survival_runs_held");
            } else if *mode == "concurrent" {
                sink.count("concurrent_drop_runs_held");
                sink.add("simultaneous_last_owner_drops_of_long_histories", j["rounds"].as_u64().unwrap_or(0));
            } else {
                let e = &j["exercise"];
                let growth = e["vmstk_after_kb"].as_i64().unwrap_or(0) - e["vmstk_before_kb"].as_i64().unwrap_or(0);
                o["vmstk_growth_kb"] = json!(growth);
                vm.entry(pname.clone()).or_default().push((*l, growth));
                sink.count("vmstk_runs");
            }
        } else if r.signal.is_some() && r.overflow_msg || (r.signal == Some(11) || r.signal == Some(6)) && r.err.is_none() {
            // died by SIGSEGV/SIGABRT (stack overflow is reported by the runtime before aborting)
            o["stderr_tail"] = json!(r.stderr_tail);
            let sig = format!("C20|stack_overflow|{}|{}", pname, mode);
            sink.violate("C20", "stack_exhausted_by_long_history", sig, format!("child playing {} capture-free turns ({}, {} on a 2 MiB stack) died: {} ; stderr: {}", l, pname, mode, r.status, r.stderr_tail.replace('\n', " / ")), json!({"kind": "longgame", "turns": l, "seed": seed, "mode": mode, "profile": pname, "stack_bytes": 2 << 20}));
        } else {
            inconclusive.push(format!("child ({} turns, {}, {}) ended with {} {:?} {}", l, pname, mode, r.status, r.err, r.stderr_tail.replace('\n', " / ")));
        }
        obs.push(o);
    }
    for (pname, v) in &vm {
        let g = |l: u64| v.iter().find(|x| x.0 == l).map(|x| x.1);
        if let (Some(a), Some(b)) = (g(1000), g(400_000)) {
            sink.count("vmstk_comparisons");
            if b - a >= 128 {
                let sig = format!("C20|stack_growth|{}", pname);
                sink.violate("C20", "stack_use_grows_with_history_length", sig, format!("{}: VmStk growth of query/clone/drop is {} kB after 1 000 turns but {} kB after 400 000 turns (growth per length {:?})", pname, a, b, v), json!({"kind": "longgame", "turns": 400_000, "seed": cfg.seed, "mode": "main", "profile": pname}));
            }
        }
    }
    // observer 3 (in-process, no overflow risk): stack span over which a list is freed when its last
    // owners drop at the same instant, for two lengths
    {
        let mut spans = vec![];
        for n in [500usize, 4000] {
            let mut worst = 0usize;
            for k in 2..=4 {
                let (span, _) = c18bare::concurrent_last_owner_drop(n, k, cfg.n(150, 1500) as usize);
                worst = worst.max(span);
            }
            sink.add("simultaneous_probe_drop_rounds", 3 * cfg.n(150, 1500));
            spans.push((n, worst));
        }
        obs.push(json!({"observer": "simultaneous last-owner drop, drop probes", "max_stack_span_bytes_by_list_length": spans}));
        if spans[1].1 > spans[0].1 + 16 * 1024 {
            let sig = "C20|stack_growth|simultaneous_last_owner_drop".to_string();
            sink.violate("C20", "stack_use_grows_with_history_length", sig, format!("when the last owners of a history list drop it at the same instant the nodes are freed over a stack span that grows with the length: {:?} (bytes by list length)", spans), json!({"kind": "longgame", "turns": 300_000, "seed": cfg.seed, "mode": "concurrent", "profile": "monitor"}));
        }
    }
    sink.sample(json!(obs.first().cloned().unwrap_or(json!(null))));
    let mut extra = Map::new();
    extra.insert("child_observations".into(), json!(obs));
    let rep = Report {
        evaluations_counter: "children_run",
        rule: "W13: child processes play L legal capture-free turns from an open position (steps from valid_actions_no_rep(), repetition legality kept by the harness' exact position set and spot-checked against valid_actions() every 10 000 turns; hash_history().len() must equal L+1), then query (action lists, result, can_pass, has_move, printing, hash, ==, history len/iter/head/tail), clone, take_action + pass, and drop the state while a clone of the state at turn L/2 is still alive, then query mid-turn states at steps 1-3 incl. a pass at step 3 and a state with a pending push (a `log` logger at Trace level that formats every record is installed), then make a capture (the engine starts a fresh history and lets go of the old one inside take_action), then query that older state and discard it - in the thread-mode children while the owning 2 MiB thread unwinds from a deliberate panic (Debug formatting is not exercised: the derived Debug of a linked list is recursive by construction and is not one of the queries the property lists). Observer 1: the whole run on a thread with the default 2 MiB stack must exit 0. Observer 2: on the main thread with an unlimited stack the growth of VmStk over the query/clone/drop block at L = 400 000 must not exceed the growth at L = 1 000 by 128 kB. Observer 3: 2-4 threads that are the only owners of one long history drop it at the same instant (spin barrier): children with 300 000-entry histories on 2 MiB threads must survive, and drop probes must show no growth of the stack span between 500 and 4 000 nodes. Observers 1-2 and the children of 3 run in the monitor profile and in plain release. distinct_nontrivial = distinct (L, seed, profile, observer) child runs that completed.".into(),
        assumptions: vec!["'for all lengths' is restated as L up to 4*10^5 (quick) / 2*10^6 (thorough) (quick: 4*10^5, thorough: 3*10^6) plus no measurable stack growth between L = 10^3 and L = 4*10^5".into(), "a child that dies for another reason (OOM, external signal) makes the run inconclusive".into()],
        floors: vec![floor("survival_runs_held", 0, 0), floor("vmstk_comparisons", 1, 1), floor("simultaneous_probe_drop_rounds", 500, 5000), floor("concurrent_drop_runs_held", 0, 0), floor("runs_with_capture_after_long_stretch", 4, 8), floor("runs_with_last_owner_dropped_during_unwinding", 2, 4), floor("runs_with_pending_push_state_queried", 4, 8), floor("runs_with_in_turn_capture_state_dropped_last", 2, 4), floor("boundary_length_drops", 180, 180), floor("runs_with_step_back_states_queried", 4, 8), floor("runs_with_step3_query_on_continued_twin", 4, 8), floor("runs_with_second_game_on_same_thread", 4, 8), floor("twin_history_probes_eq_hash_hashset", 20, 40), floor("longest_history_reached", 400_001, 3_000_001)],
        level: "exploration",
        exhaustive: None,
        extra,
        inconclusive,
    };
    conclude(cfg, sink, rep)
}

pub fn replay(v: &Value) -> i32 {
    let turns = v["turns"].as_u64().unwrap_or(150_000);
    let seed = v["seed"].as_u64().unwrap_or(1);
    let mode = v["mode"].as_str().unwrap_or("thread");
    let bin = std::env::current_exe().map(|p| p.to_string_lossy().to_string()).unwrap_or_default();
    let r = run_child(&bin, turns, seed, mode, 2 << 20);
    println!("child status: {} result: {:?} stderr: {}", r.status, r.json, r.stderr_tail);
    if r.code == Some(0) {
        if mode == "main" {
            println!("(VmStk observer: compare growth across lengths with ./check.sh C20)");
        }
        println!("no violation on this history with the current tree");
        0
    } else if r.signal.is_some() {
        println!("VIOLATION property=C20 replay=<this file>");
        1
    } else {
        2
    }
}
