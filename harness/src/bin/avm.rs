use avm::runner::*;
use std::path::PathBuf;
use std::time::Instant;

fn usage() -> ! {
    eprintln!("usage: avm check <id> [--tier quick|thorough] [--seed N] [--verif-dir DIR]\n       avm replay <file> [--verif-dir DIR]");
    std::process::exit(3)
}

fn main() {
    avm::eng::install_panic_hook();
    avm::eng::install_trace_logger();
    let args: Vec<String> = std::env::args().collect();
    if args.len() < 3 {
        usage();
    }
    let mut tier = match std::env::var("VERIF_TIER").as_deref() {
        Ok("thorough") => Tier::Thorough,
        _ => Tier::Quick,
    };
    let mut seed: u64 = std::env::var("VERIF_SEED").ok().and_then(|s| s.parse().ok()).unwrap_or(1);
    let mut verif_dir = PathBuf::from(std::env::var("VERIF_DIR").unwrap_or_else(|_| "/verif".into()));
    let mut extra: Vec<String> = vec![];
    let mut i = 3;
    while i < args.len() {
        match args[i].as_str() {
            "--tier" => {
                tier = if args.get(i + 1).map(|s| s.as_str()) == Some("thorough") { Tier::Thorough } else { Tier::Quick };
                i += 1;
            }
            "--seed" => {
                seed = args.get(i + 1).and_then(|s| s.parse().ok()).unwrap_or(seed);
                i += 1;
            }
            "--verif-dir" => {
                verif_dir = PathBuf::from(args.get(i + 1).cloned().unwrap_or_default());
                i += 1;
            }
            other => extra.push(other.to_string()),
        }
        i += 1;
    }
    let scale: f64 = std::env::var("VERIF_SCALE").ok().and_then(|s| s.parse().ok()).unwrap_or(1.0);
    let out_dir = std::env::var("AVM_OUT_DIR").map(PathBuf::from).unwrap_or_else(|_| verif_dir.clone());
    let workers: usize = std::env::var("VERIF_WORKERS").ok().and_then(|s| s.parse().ok()).unwrap_or(16);
    match args[1].as_str() {
        "check" => {
            let id: &'static str = Box::leak(args[2].clone().into_boxed_str());
            let cfg = Cfg { id, tier, seed, workers, verif_dir, out_dir, started: Instant::now(), scale };
            avm::driver::TWIN_MOD.store(if tier == Tier::Quick { 4 } else { 12 }, std::sync::atomic::Ordering::Relaxed);
            // generous wall-clock watchdog around the whole check: its firing is inconclusive, never a verdict
            let limit = std::env::var("AVM_WATCHDOG_S").ok().and_then(|s| s.parse().ok()).unwrap_or(if tier == Tier::Quick { 1800u64 } else { 14400 });
            std::thread::spawn(move || {
                std::thread::sleep(std::time::Duration::from_secs(limit));
                println!("INCONCLUSIVE property={} reason=watchdog fired after {} s (no verdict)", id, limit);
                std::process::exit(2);
            });
            let code = match std::panic::catch_unwind(std::panic::AssertUnwindSafe(|| avm::dispatch(&cfg, &extra))) {
                Ok(c) => c,
                Err(_) => {
                    // a panic outside the guarded engine calls is a defect of the harness itself: never a verdict
                    println!("INCONCLUSIVE property={} reason=harness error (panic outside guarded engine calls; see stderr)", cfg.id);
                    2
                }
            };
            std::process::exit(code);
        }
        "child-longgame" => {
            std::process::exit(avm::longgame::child(&args[2..]));
        }
        "replay" => {
            let cfg = Cfg { id: "replay", tier, seed, workers: 1, verif_dir, out_dir, started: Instant::now(), scale };
            std::process::exit(avm::replay::replay(&cfg, &args[2]));
        }
        _ => usage(),
    }
}
