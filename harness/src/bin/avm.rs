use avm::runner::*;
use std::path::PathBuf;
use std::time::Instant;

fn usage() -> ! {
    eprintln!("usage: avm check <id> [--tier quick|thorough] [--seed N] [--verif-dir DIR]\n       avm replay <file> [--verif-dir DIR]");
    std::process::exit(3)
}

fn main() {
    avm::eng::install_panic_hook();
    avm::eng::install_trace_logger();
    let args: Vec<String> = std::env::args().collect();
    if args.len() < 3 {
        usage();
    }
    let mut tier = match std::env::var("VERIF_TIER").as_deref() {
        Ok("thorough") => Tier::Thorough,
        _ => Tier::Quick,
    };
    let mut seed: u64 = std::env::var("VERIF_SEED").ok().and_then(|s| s.parse().ok()).unwrap_or(1);
    let mut verif_dir = PathBuf::from(std::env::var("VERIF_DIR").unwrap_or_else(|_| "/verif".into()));
    let mut extra: Vec<String> = vec![];
    let mut i = 3;
    while i < args.len() {
        match args[i].as_str() {
            "--tier" => {
                tier = if args.get(i + 1).map(|s| s.as_str()) == Some("thorough") { Tier::Thorough } else { Tier::Quick };
                i += 1;
            }
            "--seed" => {
                seed = args.get(i + 1).and_then(|s| s.parse().ok()).unwrap_or(seed);
                i += 1;
            }
            "--verif-dir" => {
                verif_dir = PathBuf::from(args.get(i + 1).cloned().unwrap_or_default());
                i += 1;
            }
            other => extra.push(other.to_string()),
        }
        i += 1;
    }
    let scale: f64 = std::env::var("VERIF_SCALE").ok().and_then(|s| s.parse().ok()).unwrap_or(1.0);
    let out_dir = std::env::var("AVM_OUT_DIR").map(PathBuf::from).unwrap_or_else(|_| verif_dir.clone());
    let workers: usize = std::env::var("VERIF_WORKERS").ok().and_then(|s| s.parse().ok()).unwrap_or(16);
    match args[1].as_str() {
        "check" => {
            let id: &'static str = Box::leak(args[2].clone().into_boxed_str());
            let cfg = Cfg { id, tier, seed, workers, verif_dir, out_dir, started: Instant::now(), scale };
            avm::driver::TWIN_MOD.store(if tier == Tier::Quick { 4 } else { 12 }, std::sync::atomic::Ordering::Relaxed);
            // generous wall-clock watchdog around the whole check: its firing is inconclusive, never a verdict
            let limit = std::env::var("AVM_WATCHDOG_S").ok().and_then(|s| s.parse().ok()).unwrap_or(if tier == Tier::Quick { 1800u64 } else { 14400 });
            std::thread::spawn(move || {
                std::thread::sleep(std::time::Duration::from_secs(limit));
                println!("INCONCLUSIVE property={} reason=watchdog fired after {} s (no verdict)", id, limit);
                std::process::exit(2);
            });
            // deadlock detector (a logical criterion, not a deadline): fires when for 30 s every other thread of this
            // process is blocked in a futex wait (at most one sleeps: the watchdog above), none has used any CPU time,
            // and the process has no child - nobody is left who could wake anybody. For C18 that is a verdict (threads
            // working on shared states never come back); for the other properties it ends the run as inconclusive
            // at once instead of after the watchdog.
            {
                let cfg2 = Cfg { id, tier, seed, workers, verif_dir: cfg.verif_dir.clone(), out_dir: cfg.out_dir.clone(), started: cfg.started, scale };
                std::thread::spawn(move || deadlock_detector(cfg2));
            }
            let code = match std::panic::catch_unwind(std::panic::AssertUnwindSafe(|| avm::dispatch(&cfg, &extra))) {
                Ok(c) => c,
                Err(_) => {
                    // a panic outside the guarded engine calls is a defect of the harness itself: never a verdict
                    println!("INCONCLUSIVE property={} reason=harness error (panic outside guarded engine calls; see stderr)", cfg.id);
                    2
                }
            };
            std::process::exit(code);
        }
        "child-longgame" => {
            std::process::exit(avm::longgame::child(&args[2..]));
        }
        "replay" => {
            let cfg = Cfg { id: "replay", tier, seed, workers: 1, verif_dir, out_dir, started: Instant::now(), scale };
            std::process::exit(avm::replay::replay(&cfg, &args[2]));
        }
        _ => usage(),
    }
}

/// (sum of utime + stime of the other threads, all of them blocked with nobody to wake them, futex waiters)
fn blocked_snapshot() -> Option<(u64, bool, usize)> {
    let me = std::fs::read_link("/proc/thread-self").ok()?.file_name()?.to_string_lossy().to_string();
    let mut ticks = 0u64;
    let mut futex = 0usize;
    let mut sleepers = 0usize;
    let mut all = true;
    for e in std::fs::read_dir("/proc/self/task").ok()? {
        let e = e.ok()?;
        let tid = e.file_name().to_string_lossy().to_string();
        if tid == me {
            continue;
        }
        let base = e.path();
        let stat = std::fs::read_to_string(base.join("stat")).ok()?;
        let rest = &stat[stat.rfind(')')? + 1..];
        let f: Vec<&str> = rest.split_whitespace().collect();
        let state = *f.first()?;
        ticks += f.get(11)?.parse::<u64>().ok()? + f.get(12)?.parse::<u64>().ok()?;
        // a child process could still wake us (pipes, exit): then this is not a deadlock
        match std::fs::read_to_string(base.join("children")) {
            Ok(c) => {
                if !c.trim().is_empty() {
                    all = false;
                }
            }
            Err(_) => return None, // cannot tell
        }
        let sc = std::fs::read_to_string(base.join("syscall")).ok()?;
        let nr = sc.split_whitespace().next().unwrap_or("");
        if state == "S" && nr == "202" {
            futex += 1;
        } else if state == "S" && nr == "230" {
            sleepers += 1;
        } else {
            all = false;
        }
    }
    Some((ticks, all && sleepers <= 1, futex))
}

fn deadlock_detector(cfg: Cfg) {
    use serde_json::json;
    let mut last: Option<u64> = None;
    let mut quiet = 0u32;
    loop {
        std::thread::sleep(std::time::Duration::from_secs(2));
        match blocked_snapshot() {
            Some((ticks, true, futex)) if futex >= 3 && last == Some(ticks) => quiet += 1,
            Some((ticks, _, _)) => {
                quiet = 0;
                last = Some(ticks);
                continue;
            }
            None => return, // /proc does not tell: leave it to the watchdog
        }
        if quiet < 15 {
            continue;
        }
        let (_, _, futex) = blocked_snapshot().unwrap_or((0, false, 0));
        if cfg.id == "C18" {
            let mut sink = avm::sink::Sink::new();
            sink.count("deadlock_detector_fired");
            let detail = format!("after {:.0} s of the check every thread of the process ({} of them) has been blocked in a futex wait for 30 s without using any CPU time, and no child process exists: threads working on states shared between them never came back (deadlock inside the engine)", cfg.started.elapsed().as_secs_f64(), futex);
            sink.violate("C18", "threads_deadlocked", "C18|deadlock".to_string(), detail, json!({"kind": "threads", "observer": "deadlock_detector", "futex_waiters": futex}));
            let rep = Report {
                evaluations_counter: "deadlock_detector_fired",
                rule: "deadlock detector of the C18 check: all threads blocked in futex waits, no CPU time used for 30 s, no child process (the workloads themselves did not finish, their counters are lost)".into(),
                assumptions: vec!["the harness itself takes no lock that an engine call could hold: its threads only share read-only data, atomics and join handles".into()],
                floors: vec![],
                level: "exploration",
                exhaustive: None,
                extra: serde_json::Map::new(),
                inconclusive: vec![],
            };
            let code = conclude(&cfg, sink, rep);
            std::process::exit(code);
        } else {
            println!("INCONCLUSIVE property={} reason=every thread of the check is blocked in a futex wait and no child exists (a deadlock inside the engine? that is C18's concern) - no verdict", cfg.id);
            std::process::exit(2);
        }
    }
}
