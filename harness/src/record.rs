//! Replayable game records: start (position or placements) + actions in engine notation.

use crate::model::*;
use serde_json::{json, Value};

#[derive(Clone, Debug, PartialEq)]
pub enum Start {
    /// position enters the engine as text printed by the harness' own printer
    Text { board: MBoard, gold: bool, moveno: u64 },
    /// turn-start state built with the public constructors
    Inject { board: MBoard, gold: bool, moveno: u64 },
    /// GameState::initial() followed by these 32 placements (piece strengths), then play
    Setup { placements: Vec<u8> },
}

#[derive(Clone, Debug)]
pub struct GameRecord {
    pub family: String,
    pub seed: u64,
    pub index: u64,
    pub start: Start,
    /// play-phase actions applied so far (codes)
    pub actions: Vec<Code>,
    /// set when the record comes from a transposition-order (level) tree walk: (actions at the tree root, depth);
    /// such a finding may depend on the order of expansion, so the replayer repeats the whole level walk
    pub level_tree: Option<(usize, u32)>,
    /// the game was played with look-alike decoys queried before every engine call (see decoy.rs)
    pub decoyed: bool,
    /// valid_actions() was asked before valid_actions_no_rep() at every state (instead of after)
    pub rep_first: bool,
    /// play states asked valid_actions() only (driver::OFFERED_ONLY)
    pub offered_only: bool,
}

impl GameRecord {
    pub fn new(family: &str, seed: u64, index: u64, start: Start) -> GameRecord {
        GameRecord { family: family.to_string(), seed, index, start, actions: vec![], level_tree: None, decoyed: false, rep_first: false, offered_only: false }
    }
    pub fn actions_text(&self) -> Vec<String> {
        self.actions.iter().map(|c| code_text(*c)).collect()
    }
    pub fn start_text(&self) -> String {
        match &self.start {
            Start::Text { board, gold, moveno } => format!("text:{}{}:{}", moveno, if *gold { 'g' } else { 's' }, board.compact()),
            Start::Inject { board, gold, moveno } => format!("inject:{}{}:{}", moveno, if *gold { 'g' } else { 's' }, board.compact()),
            Start::Setup { placements } => format!("setup:{}", placements.iter().map(|s| LETTERS[*s as usize]).collect::<String>()),
        }
    }
    pub fn signature(&self) -> String {
        format!("{}|{}", self.start_text(), self.actions_text().join(","))
    }
    pub fn to_json(&self) -> Value {
        let diagram = match &self.start {
            Start::Text { board, gold, moveno } | Start::Inject { board, gold, moveno } => board.to_text(*gold, *moveno),
            Start::Setup { .. } => String::new(),
        };
        json!({
            "kind": "game",
            "family": self.family,
            "seed": self.seed,
            "index": self.index,
            "start": self.start_text(),
            "start_diagram": diagram,
            "actions": self.actions_text(),
            "level_tree": self.level_tree.map(|(at, d)| json!({"root_after_actions": at, "depth": d})),
            "decoyed": self.decoyed,
            "rep_first": self.rep_first,
            "offered_only": self.offered_only,
        })
    }
    pub fn from_json(v: &Value) -> Option<GameRecord> {
        let start = parse_start(v.get("start")?.as_str()?)?;
        let mut actions = vec![];
        for a in v.get("actions")?.as_array()? {
            actions.push(parse_action_ref(a.as_str()?)?);
        }
        Some(GameRecord {
            family: v.get("family").and_then(|f| f.as_str()).unwrap_or("replay").to_string(),
            seed: v.get("seed").and_then(|f| f.as_u64()).unwrap_or(0),
            index: v.get("index").and_then(|f| f.as_u64()).unwrap_or(0),
            start,
            actions,
            decoyed: v.get("decoyed").and_then(|x| x.as_bool()).unwrap_or(false),
            rep_first: v.get("rep_first").and_then(|x| x.as_bool()).unwrap_or(false),
            offered_only: v.get("offered_only").and_then(|x| x.as_bool()).unwrap_or(false),
            level_tree: v.get("level_tree").and_then(|t| Some((t.get("root_after_actions")?.as_u64()? as usize, t.get("depth")?.as_u64()? as u32))),
        })
    }
}

pub fn parse_start(s: &str) -> Option<Start> {
    let mut it = s.splitn(3, ':');
    let kind = it.next()?;
    if kind == "setup" {
        let p = it.next()?;
        let mut placements = vec![];
        for c in p.chars() {
            placements.push(LETTERS.iter().position(|l| *l == c)? as u8);
        }
        return Some(Start::Setup { placements });
    }
    let hdr = it.next()?;
    let board = MBoard::from_compact(it.next()?)?;
    let gold = hdr.ends_with('g');
    let moveno: u64 = hdr[..hdr.len() - 1].parse().ok()?;
    match kind {
        "text" => Some(Start::Text { board, gold, moveno }),
        "inject" => Some(Start::Inject { board, gold, moveno }),
        _ => None,
    }
}
