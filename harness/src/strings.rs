//! W9 / W10 string workloads and their oracles (C15 parser robustness, C16 notation).

use crate::eng::*;
use crate::gen;
use crate::model::*;
use crate::rng::Rng;
use crate::sink::Sink;
use arimaa_engine_step::*;
use serde_json::json;

pub fn esc(s: &str) -> String {
    s.chars().flat_map(|c| c.escape_default()).collect()
}

fn string_violation(sink: &mut Sink, prop: &'static str, clause: &str, parser: &str, input: &str, detail: String) {
    let sig = format!("{}|{}|{}|{}", prop, clause, parser, esc(input));
    sink.violate(prop, clause, sig, format!("parser={} input=\"{}\" {}", parser, esc(input), detail), json!({"kind": "string", "parser": parser, "input": input, "input_escaped": esc(input)}));
}

// ------------------------------------------------------------------------------------------
// C15 (b): W9

const ODD: [&str; 16] = ["é", "€", "😀", "š", "ｅ", "１", "٣", "\u{0}", "\t", "\r", "\u{a0}", "|", "||", "\n", "x", " "];
const CELLS: [char; 20] = ['E', 'M', 'H', 'D', 'C', 'R', 'e', 'm', 'h', 'd', 'c', 'r', 'x', ' ', ' ', ' ', '.', '-', '+', '?'];

fn digits(rng: &mut Rng) -> String {
    let n = match rng.below(8) {
        0 => 0,
        1 => 1 + rng.below(3),
        2 => 19 + rng.below(3),
        3 => 20 + rng.below(21),
        _ => 1 + rng.below(6),
    };
    let mut s = String::new();
    let style = rng.below(6);
    for k in 0..n {
        let d = rng.below(10) as u32;
        match style {
            0 if k == 0 => s.push('0'),
            1 => s.push(char::from_u32(0x0660 + d).unwrap()), // arabic-indic
            2 => s.push(char::from_u32(0xFF10 + d).unwrap()), // fullwidth
            3 if rng.chance(1, 4) => s.push(char::from_u32(0x0966 + d).unwrap()), // devanagari
            4 if k == 0 => s.push('9'),
            _ => s.push(char::from_digit(d, 10).unwrap()),
        }
    }
    s
}

pub fn w9_string(rng: &mut Rng) -> (String, &'static str) {
    let class = rng.below(9);
    if class == 7 {
        // CRLF / CR line endings, optional BOM, trailing blanks
        let (b, gold, mv) = gen::w1(rng);
        let t = b.to_text(gold, mv);
        let nl = ["\r\n", "\r", "\n\r", " \n", "\t\n"][rng.below(5)];
        let mut s = t.replace('\n', nl);
        if rng.chance(1, 4) {
            s.insert(0, '\u{feff}');
        }
        return (s, "line_endings");
    }
    if class == 8 {
        // very long rows / very many cells / very long header
        let (b, gold, mv) = gen::w1(rng);
        let mut lines: Vec<String> = b.to_text(gold, mv).lines().map(|l| l.to_string()).collect();
        let r = 2 + rng.below(8);
        let n = [9usize, 16, 17, 64, 65, 300, 5000][rng.below(7)];
        let mut row = format!("{}|", 10 - r);
        for _ in 0..n {
            row.push(' ');
            row.push(CELLS[rng.below(CELLS.len())]);
        }
        row.push_str(" |");
        lines[r] = row;
        if rng.chance(1, 5) {
            lines[0] = format!("{}{}", "7".repeat(1 + rng.below(400)), if gold { 'g' } else { 's' });
        }
        return (lines.join("\n"), "huge");
    }
    if class == 6 {
        // random unicode
        let n = rng.below(300);
        let mut s = String::new();
        for _ in 0..n {
            let c = match rng.below(6) {
                0 => char::from_u32(rng.below(0x80) as u32),
                1 => char::from_u32(0x80 + rng.below(0x780) as u32),
                2 => char::from_u32(0x800 + rng.below(0xF000) as u32),
                3 => char::from_u32(0x10000 + rng.below(0x10000) as u32),
                4 => Some(['|', '\n', ' ', '1', 'g', 's', 'R', 'r'][rng.below(8)]),
                _ => Some(CELLS[rng.below(CELLS.len())]),
            };
            if let Some(c) = c {
                s.push(c);
            }
        }
        return (s, "random_unicode");
    }
    let (b, gold, mv) = gen::w1(rng);
    let base = b.to_text(gold, mv);
    let mut lines: Vec<String> = base.lines().map(|l| l.to_string()).collect();
    let name;
    match class {
        0 => {
            name = "header";
            let side = ["g", "s", "w", "b", "G", "x", "", " g", "gs"][rng.below(9)];
            let pre = ["", " ", "\t", "\n", "  \u{a0}", "-", "+"][rng.below(7)];
            lines[0] = format!("{}{}{}", pre, digits(rng), side);
            if rng.chance(1, 8) {
                lines.remove(0);
            }
        }
        1 => {
            name = "row_count";
            let target = rng.below(41);
            let mut rows: Vec<String> = lines[2..10].to_vec();
            while rows.len() > target {
                rows.remove(rng.below(rows.len()));
            }
            while rows.len() < target {
                let r = rows.get(rng.below(rows.len().max(1))).cloned().unwrap_or_else(|| "8| r R e E x   |".to_string());
                rows.insert(rng.below(rows.len() + 1), r);
            }
            let mut l = vec![lines[0].clone(), lines[1].clone()];
            l.extend(rows);
            l.push(lines[10].clone());
            l.push(lines[11].clone());
            lines = l;
        }
        2 => {
            name = "row_width";
            for r in 2..10 {
                if rng.chance(1, 2) {
                    let n = rng.below(41);
                    let mut row = format!("{}|", 10 - r);
                    for _ in 0..n {
                        row.push(' ');
                        if rng.chance(1, 12) {
                            row.push_str(ODD[rng.below(ODD.len())]);
                        } else {
                            row.push(CELLS[rng.below(CELLS.len())]);
                        }
                    }
                    row.push_str(" |");
                    lines[r] = row;
                }
            }
        }
        3 => {
            name = "bars";
            let mut s: Vec<char> = lines.join("\n").chars().collect();
            for _ in 0..1 + rng.below(6) {
                if s.is_empty() {
                    break;
                }
                let i = rng.below(s.len());
                match rng.below(3) {
                    0 => s.insert(i, '|'),
                    1 => {
                        if let Some(j) = s.iter().skip(i).position(|c| *c == '|') {
                            s.remove(i + j);
                        }
                    }
                    _ => {
                        s.insert(i, '|');
                        s.insert(i, '|');
                    }
                }
            }
            return (s.into_iter().collect(), name);
        }
        4 => {
            name = "line_shuffle";
            for _ in 0..1 + rng.below(4) {
                let i = rng.below(lines.len());
                match rng.below(3) {
                    0 => {
                        let j = rng.below(lines.len());
                        lines.swap(i, j);
                    }
                    1 => {
                        let l = lines[i].clone();
                        lines.insert(i, l);
                    }
                    _ => {
                        lines.remove(i);
                        if lines.is_empty() {
                            break;
                        }
                    }
                }
            }
        }
        _ => {
            name = "char_mutation";
            let mut s: Vec<char> = base.chars().collect();
            for _ in 0..1 + rng.below(8) {
                let i = rng.below(s.len());
                match rng.below(4) {
                    0 => s[i] = CELLS[rng.below(CELLS.len())],
                    1 => {
                        let o: Vec<char> = ODD[rng.below(ODD.len())].chars().collect();
                        for (k, c) in o.into_iter().enumerate() {
                            s.insert(i + k, c);
                        }
                    }
                    2 => {
                        s.remove(i);
                    }
                    _ => s[i] = char::from_digit(rng.below(10) as u32, 10).unwrap(),
                }
            }
            return (s.into_iter().collect(), name);
        }
    }
    (lines.join("\n"), name)
}

/// Fixed hostile inputs (always run first): the three classes DESIGN.md §6 C15 names, plus friends.
pub fn w9_fixed() -> Vec<String> {
    let valid = gen::opening_array().to_text(true, 2);
    let rows = |n: usize| {
        let mut s = String::from("2g\n +-----------------+\n");
        for r in 0..n {
            s.push_str(&format!("{}| r R e E     c C |\n", 9usize.saturating_sub(r % 9)));
        }
        s.push_str(" +-----------------+\n   a b c d e f g h\n");
        s
    };
    vec![
        "".into(),
        "|".into(),
        "||".into(),
        "g".into(),
        "99999999999999999999999999g\n +-+\n8| r |".into(),
        "18446744073709551616g\n8| r |".into(),
        "18446744073709551615g\n8| r |".into(),
        "٣g\n +-----------------+\n8| r               |".into(),
        "１２s\n8| R |".into(),
        rows(9),
        rows(12),
        rows(40),
        "2g\n8| r R r R r R r R r R r R r R r R r R r R r R r R r R r R r R r R r R r R r R r R r R r R r R |".into(),
        format!("2g\n{}", "8| R |\n".repeat(300)),
        valid.replace("2g", "00000000000000000002g"),
        valid.replace('|', "||"),
        valid.clone() + &valid,
        "2g|".into(),
        "2g\n|é€😀|".into(),
        "2g\n|\u{0}r\u{0}R|".into(),
    ]
}

pub fn judge_position_text(s: &str, class: &str, sink: &mut Sink) {
    sink.count("strings_parsed");
    match parse_state(s) {
        Err(p) => {
            sink.count("parser_panics");
            *sink.panic_sites.entry(format!("GameState::from_str @ {}", p.site)).or_insert(0) += 1;
            sink.engine_panics += 1;
            string_violation(sink, "C15", "position_parser_panicked", "GameState", s, format!("site={} msg={:?} class={}", p.site, p.msg, class));
        }
        Ok(Ok(g)) => {
            sink.count("parsed_ok");
            // the returned state must at least be a start-of-turn play state that can be printed
            if let Err(p) = guard("to_string of parsed", || (g.to_string(), g.current_step(), g.transposition_hash())) {
                string_violation(sink, "C15", "state_returned_by_parser_panics_when_queried", "GameState", s, format!("site={} msg={:?}", p.site, p.msg));
            }
        }
        Ok(Err(_)) => sink.count("parsed_err"),
    }
    let n = s.chars().count();
    sink.max("longest_input_chars", n as u64);
    sink.max("max_rows", s.split('|').count() as u64 / 2);
}

pub fn run_w9(n: u64, seed: u64, worker: usize, sink: &mut Sink) {
    let mut rng = Rng::new(seed, 0x9900 + worker as u64);
    if worker == 0 {
        for s in w9_fixed() {
            judge_position_text(&s, "fixed", sink);
            sink.count("class_fixed");
        }
    }
    for k in 0..n {
        let (s, class) = w9_string(&mut rng);
        judge_position_text(&s, class, sink);
        sink.count(&format!("class_{}", class));
        sink.distinct(fnv(s.as_bytes()));
        if sink.want_sample() && k % 50_000 == 7 {
            sink.sample(json!({"class": class, "input": esc(&s)}));
        }
    }
}

// ------------------------------------------------------------------------------------------
// C16: W10

/// Hostile alphabet: valid symbols, their neighbours (i ` 0 9), case variants, separators, NUL,
/// 2/3/4-byte characters, Unicode digits, and characters whose code point equals a valid ASCII
/// symbol modulo 256 (š ɡ ≡ a, ť ≡ e, ı ≡ 1, ĸ ≡ 8, Ů ≡ n, Ű ≡ p, Ų ≡ r, ٣ ≡ c, ｅ ≡ E) so that
/// `char as u8` truncation bugs in any position are inside the exhaustive part.
pub const ALPHABET: [&str; 45] = ["a", "h", "i", "`", "A", "H", "g", "0", "1", "8", "9", "n", "e", "s", "w", "N", "p", "P", "r", "R", "E", "m", "x", " ", "+", "-", "\u{0}", "é", "€", "😀", "š", "ɡ", "ｅ", "１", "٣", "ǈ", "ı", "ĸ", "Ů", "Ű", "Ų", "ť", "\n", "\t", "\r"];

fn lower_piece_letters(s: &str) -> String {
    // piece letters may be upper case in the input
    if s.chars().count() == 1 {
        s.to_lowercase()
    } else {
        s.to_string()
    }
}

pub fn judge_notation(s: &str, sink: &mut Sink) {
    // Action
    sink.count("strings_judged");
    let r = guard("Action::from_str", || s.parse::<Action>().ok().map(|a| (a, a.to_string())));
    let rf = parse_action_ref(s);
    match r {
        Err(p) => {
            sink.engine_panics += 1;
            *sink.panic_sites.entry(format!("Action::from_str @ {}", p.site)).or_insert(0) += 1;
            string_violation(sink, "C16", "parser_panicked", "Action", s, format!("site={} msg={:?}", p.site, p.msg));
        }
        Ok(Some((a, printed))) => {
            sink.count("action_accepted");
            match rf {
                None => string_violation(sink, "C16", "malformed_text_accepted", "Action", s, format!("parsed as {}", printed)),
                Some(code) => {
                    let structural = match a {
                        Action::Move(sq, d) => is_step(code) && sq.index() == code_sq(code) && d == Direction::ALL[code_dir(code) as usize],
                        Action::Pass => code == PASS,
                        Action::Place(p) => code >= 257 && piece_strength(p) == (code - 257) as u8,
                    };
                    if !structural || printed != code_text(code) {
                        string_violation(sink, "C16", "parsed_value_ne_reference", "Action", s, format!("parsed as {} expected {}", printed, code_text(code)));
                    }
                    if printed != lower_piece_letters(s) {
                        string_violation(sink, "C16", "accepted_string_not_printed_form", "Action", s, format!("prints as {}", printed));
                    }
                }
            }
        }
        Ok(None) => {
            if let Some(code) = rf {
                string_violation(sink, "C16", "printed_form_rejected", "Action", s, format!("reference value {}", code_text(code)));
            }
        }
    }
    // Square
    let r = guard("Square::from_str", || s.parse::<Square>().ok().map(|q| (q.index(), q.to_string())));
    let rf = parse_square_ref(s);
    match r {
        Err(p) => {
            sink.engine_panics += 1;
            *sink.panic_sites.entry(format!("Square::from_str @ {}", p.site)).or_insert(0) += 1;
            string_violation(sink, "C16", "parser_panicked", "Square", s, format!("site={} msg={:?}", p.site, p.msg));
        }
        Ok(Some((idx, printed))) => {
            sink.count("square_accepted");
            if rf != Some(idx) || printed != s {
                let clause = if rf.is_none() { "malformed_text_accepted" } else { "parsed_value_ne_reference" };
                string_violation(sink, "C16", clause, "Square", s, format!("parsed as index {} printing {} (reference {:?})", idx, printed, rf));
            }
        }
        Ok(None) => {
            if rf.is_some() {
                string_violation(sink, "C16", "printed_form_rejected", "Square", s, String::new());
            }
        }
    }
    // Piece
    let r = guard("Piece::from_str", || s.parse::<Piece>().ok().map(|p| (piece_strength(p), p.to_string())));
    let rf = parse_piece_ref(s);
    match r {
        Err(p) => {
            sink.engine_panics += 1;
            string_violation(sink, "C16", "parser_panicked", "Piece", s, format!("site={} msg={:?}", p.site, p.msg));
        }
        Ok(Some((st, printed))) => {
            sink.count("piece_accepted");
            if rf != Some(st) || printed != s.to_lowercase() {
                let clause = if rf.is_none() { "malformed_text_accepted" } else { "parsed_value_ne_reference" };
                string_violation(sink, "C16", clause, "Piece", s, format!("parsed as {}", printed));
            }
        }
        Ok(None) => {
            if rf.is_some() {
                string_violation(sink, "C16", "printed_form_rejected", "Piece", s, String::new());
            }
        }
    }
    // Direction
    let r = guard("Direction::from_str", || s.parse::<Direction>().ok().map(|d| (d, d.to_string())));
    let rf = parse_dir_ref(s);
    match r {
        Err(p) => {
            sink.engine_panics += 1;
            string_violation(sink, "C16", "parser_panicked", "Direction", s, format!("site={} msg={:?}", p.site, p.msg));
        }
        Ok(Some((d, printed))) => {
            sink.count("direction_accepted");
            if rf.map(|k| Direction::ALL[k as usize]) != Some(d) || printed != s {
                let clause = if rf.is_none() { "malformed_text_accepted" } else { "parsed_value_ne_reference" };
                string_violation(sink, "C16", clause, "Direction", s, format!("parsed as {}", printed));
            }
        }
        Ok(None) => {
            if rf.is_some() {
                string_violation(sink, "C16", "printed_form_rejected", "Direction", s, String::new());
            }
        }
    }
}

/// The value spaces, completely (worker 0 only).
pub fn judge_value_spaces(sink: &mut Sink) {
    let t = tables();
    let mut fail = |sink: &mut Sink, clause: &str, what: String| {
        let sig = format!("C16|{}|{}", clause, what);
        sink.violate("C16", clause, sig, what.clone(), json!({"kind": "value", "what": what}));
    };
    // squares
    for i in 0..64usize {
        let text = sq_text(i);
        let file = (b'a' + (i % 8) as u8) as char;
        let rank = 8 - i / 8;
        let r = guard("square conversions", || {
            let sq = Square::from_index(i as u8);
            let via_new = Square::new(file, rank);
            let via_bit = Square::from_bit_board(1u64 << i);
            let parsed = text.parse::<Square>().ok();
            (sq.to_string(), sq.index(), sq.as_bit_board(), sq.column_char(), sq.row(), via_new == sq, via_bit == sq, parsed == Some(sq), format!("{:?}", sq))
        });
        sink.count("values_judged");
        match r {
            Err(p) => fail(sink, "square_conversion_panicked", format!("square index {} site {} {}", i, p.site, p.msg)),
            Ok((printed, idx, bit, col, row, new_ok, bit_ok, parse_ok, dbg)) => {
                if printed != text || dbg != text {
                    fail(sink, "square_text", format!("index {} prints {} expected {}", i, printed, text));
                }
                if idx != i || bit != 1u64 << i {
                    fail(sink, "square_index_or_bit", format!("index {} -> index() {} bit {:#x}", i, idx, bit));
                }
                if col != file || row as usize != rank {
                    fail(sink, "square_column_or_row", format!("index {} column {} row {}", i, col, row));
                }
                if !new_ok || !bit_ok || !parse_ok {
                    fail(sink, "square_conversions_not_inverse", format!("index {} new={} from_bit_board={} parse={}", i, new_ok, bit_ok, parse_ok));
                }
            }
        }
    }
    // actions
    for c in 0..263u16 {
        let text = code_text(c);
        let a = if c < 256 {
            Action::Move(Square::from_index((c / 4) as u8), Direction::ALL[(c % 4) as usize])
        } else if c == PASS {
            Action::Pass
        } else {
            Action::Place(t.piece[(c - 257) as usize])
        };
        sink.count("values_judged");
        match guard("action round trip", || (a.to_string(), format!("{:?}", a), a.to_string().parse::<Action>().ok() == Some(a), text.parse::<Action>().ok() == Some(a), text.to_uppercase().parse::<Action>().ok())) {
            Err(p) => fail(sink, "action_round_trip_panicked", format!("{} site {} {}", text, p.site, p.msg)),
            Ok((printed, dbg, rt, from_ref, upper)) => {
                if printed != text || dbg != text {
                    fail(sink, "action_text", format!("value {} prints {}", text, printed));
                }
                if !rt || !from_ref {
                    fail(sink, "action_round_trip", format!("value {} does not parse back to itself", text));
                }
                if c >= 257 && upper != Some(a) {
                    fail(sink, "upper_case_piece_letter_rejected", text.to_uppercase());
                }
            }
        }
    }
    // pieces and directions
    for s in 0..6usize {
        sink.count("values_judged");
        let p = Piece::ALL[s];
        if p.to_string() != LETTERS[s].to_string() || p.to_string().parse::<Piece>().ok() != Some(p) || LETTERS[s].to_ascii_uppercase().to_string().parse::<Piece>().ok() != Some(p) {
            fail(sink, "piece_round_trip", format!("piece {}", LETTERS[s]));
        }
    }
    // strength order R < C < D < H < M < E is part of the notation tables the model relies on
    for s in 0..5usize {
        if !(Piece::ALL[s] < Piece::ALL[s + 1]) {
            fail(sink, "piece_order", format!("{} !< {}", LETTERS[s], LETTERS[s + 1]));
        }
    }
    for d in 0..4usize {
        sink.count("values_judged");
        let dir = Direction::ALL[d];
        if dir.to_string() != DIRS[d].to_string() || dir.to_string().parse::<Direction>().ok() != Some(dir) {
            fail(sink, "direction_round_trip", format!("direction {}", DIRS[d]));
        }
    }
    // map_bit_board_to_squares
    let mut rng = Rng::new(16, 16);
    for k in 0..20_000u64 {
        let b = match k {
            0 => 0,
            1 => u64::MAX,
            2 => 1,
            3 => 1 << 63,
            _ => match k % 5 {
                0 => rng.next() & rng.next() & rng.next(),
                1 => rng.next() & rng.next(),
                2 => rng.next(),
                3 => rng.next() | rng.next(),
                _ => rng.next() | rng.next() | (1 << 63) | 1,
            },
        };
        sink.count("bitboards_judged");
        match guard("map_bit_board_to_squares", || map_bit_board_to_squares(b).iter().map(|s| s.index()).collect::<Vec<_>>()) {
            Err(p) => fail(sink, "map_bit_board_to_squares_panicked", format!("{:#x} {}", b, p.site)),
            Ok(v) => {
                let exp: Vec<usize> = (0..64).filter(|i| b >> i & 1 == 1).collect();
                if v != exp {
                    fail(sink, "map_bit_board_to_squares", format!("{:#x} -> {:?}", b, v));
                }
            }
        }
    }
}

fn nth_string(mut k: u64, len: usize, alphabet: &[String]) -> String {
    let n = alphabet.len() as u64;
    let mut parts = Vec::with_capacity(len);
    for _ in 0..len {
        parts.push(&alphabet[(k % n) as usize]);
        k /= n;
    }
    parts.into_iter().rev().map(|s| s.as_str()).collect()
}

/// Exhaustive: all strings of length 0..=max_len over `alphabet`, sharded over workers.
pub fn exhaustive_strings(alphabet: &[String], max_len: usize, worker: usize, workers: usize, counter: &str, sink: &mut Sink) {
    for len in 0..=max_len {
        let total = (alphabet.len() as u64).pow(len as u32);
        let mut k = worker as u64;
        while k < total {
            let s = nth_string(k, len, alphabet);
            judge_notation(&s, sink);
            sink.count(counter);
            if sink.want_sample() && k % 400_003 == 5 {
                sink.sample(json!({"input": esc(&s), "reference_action": parse_action_ref(&s).map(code_text)}));
            }
            k += workers as u64;
        }
    }
}

/// Every Unicode scalar value in every single position of a short notation string (the other
/// positions hold valid symbols): c, "a"c, c"1", c"1n", "a"c"n", "a1"c - about 6.7 M strings.
pub fn unicode_position_sweep(worker: usize, workers: usize, sink: &mut Sink) {
    let mut cp = worker as u32;
    while cp <= 0x10FFFF {
        if let Some(c) = char::from_u32(cp) {
            let forms = [format!("{}", c), format!("a{}", c), format!("{}1", c), format!("{}1n", c), format!("h{}s", c), format!("a1{}", c), format!("{}8", c), format!("g{}", c)];
            for f in forms.iter() {
                judge_notation(f, sink);
                sink.count("unicode_position_sweep_strings");
            }
        }
        cp += workers as u32;
    }
}

/// Every ordered TRIPLE of the 263 action values printed back to back (18.2 M triples): whatever the
/// printer remembers from the previous one or two values must not leak into the next text.
pub fn display_triples(worker: usize, workers: usize, sink: &mut Sink) {
    let t = tables();
    let acts: Vec<Action> = (0..263u16).map(|c| t.act_by_code[c as usize]).collect();
    let texts: Vec<String> = (0..263u16).map(code_text).collect();
    let mut n = 0u64;
    for i in (worker..263).step_by(workers.max(1)) {
        for j in 0..263usize {
            let r = guard("action round trip", || {
                let mut bad: Option<(usize, usize, String)> = None;
                for k in 0..263usize {
                    let (x, y, z) = (acts[i].to_string(), acts[j].to_string(), acts[k].to_string());
                    if bad.is_none() && (x != texts[i] || y != texts[j] || z != texts[k]) {
                        bad = Some((j, k, format!("{} {} {}", x, y, z)));
                    }
                }
                bad
            });
            n += 263;
            match r {
                Err(p) => string_violation(sink, "C16", "printer_panicked", "Action", &texts[i], format!("site={} msg={:?}", p.site, p.msg)),
                Ok(Some((j2, k2, got))) => string_violation(sink, "C16", "printed_text_depends_on_previous_prints", "Action", &format!("{} {} {}", texts[i], texts[j2], texts[k2]), format!("printed back to back as {:?}", got)),
                Ok(None) => {}
            }
        }
    }
    sink.add("display_triples", n);
}

/// A sink that accepts `room` bytes and then fails.
struct Limited {
    room: usize,
    got: String,
}
impl std::fmt::Write for Limited {
    fn write_str(&mut self, s: &str) -> std::fmt::Result {
        if s.len() > self.room {
            return Err(std::fmt::Error);
        }
        self.room -= s.len();
        self.got.push_str(s);
        Ok(())
    }
}

/// Printing into sinks that fail after 0..3 bytes (a full line buffer): the failed print must not change what
/// the next prints produce. Every action value x every room x every following action value.
pub fn display_into_failing_sinks(worker: usize, workers: usize, sink: &mut Sink) {
    use std::fmt::Write;
    let t = tables();
    let acts: Vec<Action> = (0..263u16).map(|c| t.act_by_code[c as usize]).collect();
    let texts: Vec<String> = (0..263u16).map(code_text).collect();
    let mut n = 0u64;
    for i in (worker..263).step_by(workers.max(1)) {
        for room in 0..4usize {
            let r = guard("action round trip", || {
                let mut bad: Option<(usize, String)> = None;
                for k in 0..263usize {
                    let mut w = Limited { room, got: String::new() };
                    let _ = write!(w, "{}", acts[i]);
                    let z = acts[k].to_string();
                    if bad.is_none() && z != texts[k] {
                        bad = Some((k, z));
                    }
                }
                bad
            });
            n += 263;
            match r {
                Err(p) => string_violation(sink, "C16", "printer_panicked", "Action", &texts[i], format!("into a sink with room for {} bytes: site={} msg={:?}", room, p.site, p.msg)),
                Ok(Some((k, got))) => string_violation(sink, "C16", "printed_text_depends_on_previous_prints", "Action", &format!("{} then {}", texts[i], texts[k]), format!("after printing {} into a sink that fails after {} bytes, {} prints as {:?}", texts[i], room, texts[k], got)),
                Ok(None) => {}
            }
        }
    }
    sink.add("prints_after_a_failed_print", n);
}

/// Short parse HISTORIES: for every move token T, every one-character token X and a set of tokens Y
/// derived from them (file letter, rank digit, direction letter, prefixes, suffixes, NUL-padded forms,
/// another move from the same square), every sequence of four parses over {T, X, Y} - each parse judged
/// against the reference grammar. Parsers that remember recent tokens are thereby driven through
/// every hit / miss / promotion pattern of a small cache.
pub fn parse_histories(worker: usize, workers: usize, sink: &mut Sink) {
    let mut n = 0u64;
    for tc in (worker..256).step_by(workers.max(1)) {
        let t_ = code_text(tc as u16);
        let tch: Vec<char> = t_.chars().collect();
        let other = code_text((tc as u16 / 4) * 4 + ((tc as u16 + 1) % 4));
        for x in ["p", "r", "c", "d", "h", "m", "e", "R", "E"] {
            let ys: Vec<String> = vec![
                tch[0].to_string(),
                tch[1].to_string(),
                tch[2].to_string(),
                tch[..2].iter().collect(),
                tch[1..].iter().collect(),
                format!("{}\0\0", x),
                format!("{}\0", t_),
                other.clone(),
                t_.to_uppercase(),
            ];
            for y in &ys {
                let w = [t_.as_str(), x, y.as_str()];
                for seq in 0..81usize {
                    let mut q = seq;
                    for _ in 0..4 {
                        judge_notation(w[q % 3], sink);
                        q /= 3;
                        n += 1;
                    }
                }
            }
        }
    }
    sink.add("parse_history_parses", n);
}

/// The printed form under the formatter's own options: width, fill, alignment, sign and zero flags, the
/// alternate flag, and the Debug forms inherited from a container. A `Display` impl may honour width and
/// fill or ignore them, but the symbols of the notation must stay together: with the fill characters
/// (and the container's brackets, commas and white space) trimmed off, the text must parse back to the value.
pub fn display_under_format_options(sink: &mut Sink) {
    fn forms<T: std::fmt::Display + std::fmt::Debug + Clone>(v: &T) -> Vec<(&'static str, String)> {
        vec![
            ("{:<6}", format!("{:<6}", v)),
            ("{:>6}", format!("{:>6}", v)),
            ("{:^7}", format!("{:^7}", v)),
            ("{:*<5}", format!("{:*<5}", v)),
            ("{:*>8}", format!("{:*>8}", v)),
            ("{:+}", format!("{:+}", v)),
            ("{:04}", format!("{:04}", v)),
            ("{:+06}", format!("{:+06}", v)),
            ("{:#}", format!("{:#}", v)),
            ("{:2}", format!("{:2}", v)),
            ("{:<6?}", format!("{:<6?}", v)),
            ("{:#?}", format!("{:#?}", v)),
            ("{:04?}", format!("{:04?}", v)),
            ("vec {:5?}", format!("{:5?}", vec![v.clone(), v.clone()])),
            ("vec {:#?}", format!("{:#?}", vec![v.clone()])),
            ("option {:>7?}", format!("{:>7?}", Some(v.clone()))),
        ]
    }
    fn tokens(text: &str) -> Vec<String> {
        // what is left when fill characters and container punctuation are taken away
        text.replace("Some", " ").split(|c: char| c.is_whitespace() || "*[](),".contains(c)).filter(|t| !t.is_empty()).map(|t| t.to_string()).collect()
    }
    let t = tables();
    let mut n = 0u64;
    let mut fail = |sink: &mut Sink, what: &str, spec: &str, got: &str| {
        let w = format!("{} formatted with {} gives {:?}", what, spec, got);
        let sig = format!("C16|notation_broken_by_format_options|{}|{}", what, spec);
        sink.violate("C16", "notation_broken_by_format_options", sig, w.clone(), json!({"kind": "value", "what": w}));
    };
    for c in 0..263u16 {
        let a = t.act_by_code[c as usize];
        let text = code_text(c);
        match guard("action round trip", || forms(&a)) {
            Err(p) => fail(sink, &text, "(panicked)", &format!("site={} msg={:?}", p.site, p.msg)),
            Ok(fs) => {
                for (spec, got) in fs {
                    n += 1;
                    let toks = tokens(&got);
                    if toks.is_empty() || toks.iter().any(|k| k.parse::<Action>().ok() != Some(a)) {
                        fail(sink, &text, spec, &got);
                    }
                }
            }
        }
    }
    for i in 0..64usize {
        let sq = Square::from_index(i as u8);
        let text = sq_text(i);
        match guard("square conversions", || forms(&sq)) {
            Err(p) => fail(sink, &text, "(panicked)", &format!("site={} msg={:?}", p.site, p.msg)),
            Ok(fs) => {
                for (spec, got) in fs {
                    n += 1;
                    let toks = tokens(&got);
                    if toks.is_empty() || toks.iter().any(|k| k.parse::<Square>().ok() != Some(sq)) {
                        fail(sink, &text, spec, &got);
                    }
                }
            }
        }
    }
    sink.add("prints_under_format_options", n);
}

/// Everything printed once more on a thread that has never printed anything, after all other work of the
/// check is over (whatever the printers keep per thread or per process must not make a late-comer's text differ).
pub fn late_thread_prints(sink: &mut Sink) {
    let t = tables();
    let acts: Vec<Action> = (0..263u16).map(|c| t.act_by_code[c as usize]).collect();
    let texts: Vec<String> = (0..263u16).map(code_text).collect();
    for round in 0..3usize {
        let acts2 = acts.clone();
        let r = std::thread::spawn(move || {
            std::panic::catch_unwind(move || {
                let mut out: Vec<(usize, String)> = Vec::new();
                // three different orders: downwards, every 7th, upwards
                for k in 0..263usize {
                    let i = match round {
                        0 => 262 - k,
                        1 => (k * 7) % 263,
                        _ => k,
                    };
                    out.push((i, acts2[i].to_string()));
                }
                let sq: Vec<String> = (0..64usize).rev().map(|i| Square::from_index(i as u8).to_string()).collect();
                (out, sq)
            })
        })
        .join();
        match r {
            Ok(Ok((out, sq))) => {
                for (i, got) in out {
                    sink.count("late_thread_prints");
                    if got != texts[i] {
                        string_violation(sink, "C16", "printed_text_depends_on_previous_prints", "Action", &texts[i], format!("printed on a fresh thread after all other prints of the check as {:?}", got));
                    }
                }
                for (k, got) in sq.iter().enumerate() {
                    sink.count("late_thread_prints");
                    if *got != sq_text(63 - k) {
                        string_violation(sink, "C16", "printed_text_depends_on_previous_prints", "Square", &sq_text(63 - k), format!("printed on a fresh thread after all other prints of the check as {:?}", got));
                    }
                }
            }
            _ => string_violation(sink, "C16", "printer_panicked", "Action", "(all values)", "on a fresh thread after all other prints of the check".to_string()),
        }
    }
}

pub fn run_w10(random_n: u64, seed: u64, worker: usize, workers: usize, sink: &mut Sink) {
    unicode_position_sweep(worker, workers, sink);
    if worker == 0 {
        judge_value_spaces(sink);
        display_under_format_options(sink);
    }
    display_triples(worker, workers, sink);
    display_into_failing_sinks(worker, workers, sink);
    parse_histories(worker, workers, sink);
    let hostile: Vec<String> = ALPHABET.iter().map(|s| s.to_string()).collect();
    exhaustive_strings(&hostile, 4, worker, workers, "exhaustive_hostile_alphabet_len_le_4", sink);
    let ascii: Vec<String> = (0x20u8..0x7f).map(|b| (b as char).to_string()).collect();
    exhaustive_strings(&ascii, 3, worker, workers, "exhaustive_printable_ascii_len_le_3", sink);
    // sampled beyond
    let mut rng = Rng::new(seed, 0xA100 + worker as u64);
    for k in 0..random_n {
        let len = 5 + rng.below(8);
        let mut s = String::new();
        for _ in 0..len {
            if rng.chance(3, 4) {
                s.push_str(ALPHABET[rng.below(ALPHABET.len())]);
            } else if let Some(c) = char::from_u32(rng.below(0x11_0000) as u32) {
                s.push(c);
            }
        }
        // also near-misses of valid strings: valid action with one char replaced / appended
        if k % 4 == 0 {
            let base = code_text(rng.below(263) as u16);
            let mut ch: Vec<char> = base.chars().collect();
            match rng.below(3) {
                0 => {
                    let i = rng.below(ch.len());
                    ch[i] = ALPHABET[rng.below(ALPHABET.len())].chars().next().unwrap();
                }
                1 => ch.push(ALPHABET[rng.below(ALPHABET.len())].chars().next().unwrap()),
                _ => ch.insert(0, ALPHABET[rng.below(ALPHABET.len())].chars().next().unwrap()),
            }
            s = ch.into_iter().collect();
        }
        // valid text with a longer hostile tail or head (whitespace, newlines, repeats): must be rejected
        if k % 4 == 1 {
            let base = code_text(rng.below(263) as u16);
            let tails = [" ", "\n", "\t", "\r\n", "  ", "n", "p", "\u{0}", "1", "a1n", " p", "\u{a0}", "\u{feff}"];
            let mut t = String::new();
            for _ in 0..1 + rng.below(5) {
                t.push_str(tails[rng.below(tails.len())]);
            }
            s = if rng.chance(1, 2) { format!("{}{}", base, t) } else { format!("{}{}", t, base) };
        }
        if k % 4096 == 2 {
            s = "a1n".repeat(1 + rng.below(400));
        }
        judge_notation(&s, sink);
        sink.count("random_strings");
        sink.distinct(fnv(s.as_bytes()));
    }
}
