//! Plays games through the engine's public API, keeps the shadow (model) state next to the
//! engine state and hands every observed state / transition to the enabled monitor.

use crate::eng::*;
use crate::model::*;
use crate::record::*;
use crate::rng::Rng;
use crate::sink::Sink;
use arimaa_engine_step::*;
use std::collections::HashMap;
use std::sync::Arc;

/// The observer's record of the game so far. `board`, `gold`, `step`, `moveno` are what was
/// *observed* at the engine (decoded), `pend` follows the model's own automaton, the history
/// holds exact boards and is never cleared.
#[derive(Clone, Debug)]
pub struct Shadow {
    pub board: MBoard,
    pub gold: bool,
    pub step: u8,
    pub pend: Pend,
    pub moveno: u64,
    pub turn_start: MBoard,
    /// occurrences of (board, side to move) at turn starts since play began / since the parse
    pub history: Arc<HashMap<(MBoard, bool), u32>>,
    /// boards after 0..step-1 steps of this turn (index i = board after i steps)
    pub step_boards: Vec<MBoard>,
    pub captured_this_turn: bool,
    pub turns: u32,
    pub actions: u32,
    pub last: Option<Code>,
    /// cause of the last capture for coverage classes
    pub last_cap: Option<(usize, u8)>,
}

impl Shadow {
    pub fn start(board: MBoard, gold: bool, moveno: u64) -> Shadow {
        let mut h = HashMap::new();
        h.insert((board, gold), 1);
        Shadow {
            board,
            gold,
            step: 0,
            pend: Pend::None,
            moveno,
            turn_start: board,
            history: Arc::new(h),
            step_boards: vec![],
            captured_this_turn: false,
            turns: 0,
            actions: 0,
            last: None,
            last_cap: None,
        }
    }
    pub fn occurrences(&self, b: &MBoard, gold: bool) -> u32 {
        self.history.get(&(*b, gold)).copied().unwrap_or(0)
    }
    /// Would this turn-ending result be illegal under the repetition rules? (exact boards)
    /// returns 0 = fine, 1 = equals the turn start, 2 = third occurrence
    pub fn repetition_verdict(&self, result: &MBoard) -> u8 {
        if *result == self.turn_start {
            1
        } else if self.occurrences(result, !self.gold) >= 2 {
            2
        } else {
            0
        }
    }
    pub fn fingerprint(&self) -> u64 {
        let mut h = self.board.fingerprint();
        h = mix(h, self.gold as u64 + 2 * self.step as u64);
        h = mix(
            h,
            match self.pend {
                Pend::None => 0,
                Pend::Pull(s, t) => 1000 + s as u64 * 8 + t as u64,
                Pend::Push(s, t) => 2000 + s as u64 * 8 + t as u64,
            },
        );
        h
    }
}

pub struct Obs<'a> {
    pub rec: &'a GameRecord,
    pub g: &'a GameState,
    pub sh: &'a Shadow,
    pub norep: &'a [Action],
    pub norep_codes: &'a [Code],
    pub rep: &'a [Action],
    pub rep_codes: &'a [Code],
    pub term: Option<bool>,
    /// on the linear path of a game (false inside turn-tree expansions)
    pub linear: bool,
}

pub struct SetupObs<'a> {
    pub rec: &'a GameRecord,
    pub g: &'a GameState,
    pub model: &'a SetupModel,
    pub offered: &'a [Action],
    pub offered_codes: &'a [Code],
    pub norep: &'a [Action],
    pub term: Option<bool>,
}

pub struct SetupTrans<'a> {
    pub rec: &'a GameRecord,
    pub before: &'a GameState,
    pub model_before: &'a SetupModel,
    pub strength: u8,
    pub after: &'a GameState,
    pub model_after: &'a SetupModel,
}

pub struct Trans<'a> {
    /// record including the applied action
    pub rec: &'a GameRecord,
    pub before: &'a Obs<'a>,
    pub code: Code,
    pub action: &'a Action,
    pub after: &'a GameState,
    pub obs_board: MBoard,
    pub obs_gold: bool,
    pub obs_step: u8,
    pub obs_moveno: u64,
    /// model's expectation
    pub applied: Option<&'a Applied>,
    pub exp_board: MBoard,
    pub exp_gold: bool,
    pub exp_step: u8,
    pub exp_moveno: u64,
    pub turn_ended: bool,
    pub sh_after: &'a Shadow,
}

#[allow(unused_variables)]
pub trait Monitor {
    fn on_game_start(&mut self, rec: &GameRecord, s: &mut Sink) {}
    fn on_setup_state(&mut self, o: &SetupObs, s: &mut Sink) {}
    fn on_setup_transition(&mut self, t: &SetupTrans, s: &mut Sink) {}
    fn on_state(&mut self, o: &Obs, s: &mut Sink) {}
    fn on_transition(&mut self, t: &Trans, s: &mut Sink) {}
    fn on_panic(&mut self, rec: &GameRecord, p: &PanicInfo, s: &mut Sink) {}
    fn on_game_end(&mut self, rec: &GameRecord, s: &mut Sink) {}
    fn finish(&mut self, s: &mut Sink) {}
    /// synthetic twins of visited play states the monitor wants to judge as well (bit mask of decoy::judged_twins kinds)
    fn twin_kinds(&self) -> u8 {
        0
    }
    /// a twin of the state last passed to `on_state` (same shadow; lists and result are the twin's own)
    fn on_twin_state(&mut self, kind: u8, o: &Obs, s: &mut Sink) {}
    /// monitors that need the turn tree expanded at sampled roots say how deep / how many nodes
    fn wants_rep_lists(&self) -> bool {
        true
    }
}

#[derive(Clone, Debug)]
pub enum Policy {
    Uniform,
    PushLover,
    PullLover,
    Passer,
    CaptureSeeker,
    Reverser,
    /// follow the script while its next action is offered, then fall back to Uniform
    Script(Vec<Code>),
    /// scripted; stop the game when the script is exhausted or its next action is not offered
    Replay(Vec<Code>),
}

#[derive(Clone)]
pub struct Queries {
    pub norep: Vec<Action>,
    pub norep_codes: Vec<Code>,
    pub rep: Vec<Action>,
    pub rep_codes: Vec<Code>,
    /// offered codes the driver may choose from (unknown action values, code u16::MAX, excluded)
    pub pick: Vec<Code>,
    pub term: Option<bool>,
}

thread_local! {
    /// order of the two list queries in `observe` (set per game by `play`)
    pub static REP_FIRST: std::cell::Cell<bool> = std::cell::Cell::new(false);
    /// play states of this game are only asked valid_actions() and is_terminal(), never valid_actions_no_rep()
    /// (setup states are asked both as always); the rule-only list handed to the monitor is then a copy of the offered one
    pub static OFFERED_ONLY: std::cell::Cell<bool> = std::cell::Cell::new(false);
}
/// fraction of the games played on the offered-only diet (set by check plans whose monitor does not use the rule-only list)
pub static OFFERED_ONLY_PER_MILLE: std::sync::atomic::AtomicU32 = std::sync::atomic::AtomicU32::new(0);

pub fn observe(g: &GameState) -> Result<Queries, PanicInfo> {
    let (norep, rep) = if OFFERED_ONLY.with(|c| c.get()) {
        let rep = guard("valid_actions", || g.valid_actions())?;
        (rep.clone(), rep)
    } else if REP_FIRST.with(|c| c.get()) {
        let rep = guard("valid_actions", || g.valid_actions())?;
        let norep = guard("valid_actions_no_rep", || g.valid_actions_no_rep())?;
        (norep, rep)
    } else {
        let norep = guard("valid_actions_no_rep", || g.valid_actions_no_rep())?;
        let rep = guard("valid_actions", || g.valid_actions())?;
        (norep, rep)
    };
    let term = guard("is_terminal", || g.is_terminal())?;
    let norep_codes = codes_of(&norep);
    let rep_codes = codes_of(&rep);
    let pick: Vec<Code> = rep_codes.iter().copied().filter(|c| *c != u16::MAX).collect();
    Ok(Queries { norep, norep_codes, rep, rep_codes, pick, term: decode_term(&term) })
}

pub struct StepOut {
    pub after: GameState,
    pub sh_after: Shadow,
    pub applied: Option<Applied>,
    pub obs_board: MBoard,
    pub obs_gold: bool,
    pub obs_step: u8,
    pub obs_moveno: u64,
    pub exp_board: MBoard,
    pub exp_gold: bool,
    pub exp_step: u8,
    pub exp_moveno: u64,
    pub turn_ended: bool,
    pub resynced: bool,
}

/// Apply an offered action to the engine state and to the shadow.
pub fn step(g: &GameState, sh: &Shadow, code: Code) -> Result<StepOut, PanicInfo> {
    let action = code_act(code);
    let after = guard_act("take_action", &action, || g.take_action(&action))?;
    let obs_board = guard("piece_board", || decode_board(after.piece_board()))?;
    let obs_gold = guard("is_p1_turn_to_move", || after.is_p1_turn_to_move())?;
    let obs_step = guard("current_step", || after.current_step())? as u8;
    let obs_moveno = guard("move_number", || after.move_number())? as u64;

    // model expectation
    let applied = if is_step(code) { sh.board.apply(sh.gold, sh.pend, code_sq(code), code_dir(code)) } else { None };
    let exp_board = applied.as_ref().map_or(sh.board, |a| a.board);
    let turn_ended = code == PASS || sh.step == 3;
    let (exp_gold, exp_step, exp_moveno) = if turn_ended {
        (!sh.gold, 0, sh.moveno + if sh.gold { 0 } else { 1 })
    } else {
        (sh.gold, sh.step + 1, sh.moveno)
    };
    let resynced = exp_board != obs_board || exp_gold != obs_gold || exp_step != obs_step || exp_moveno != obs_moveno;

    // the shadow adopts what was observed; the pending status follows the model's automaton
    let obs_turn_ended = obs_gold != sh.gold;
    let mut n = Shadow {
        board: obs_board,
        gold: obs_gold,
        step: obs_step.min(3), // an out-of-range counter is C03's finding; the shadow stays well-formed
        pend: Pend::None,
        moveno: obs_moveno,
        turn_start: sh.turn_start,
        history: sh.history.clone(),
        step_boards: vec![],
        captured_this_turn: false,
        turns: sh.turns,
        actions: sh.actions + 1,
        last: Some(code),
        last_cap: applied.as_ref().and_then(|a| a.captured.first().copied()),
    };
    if obs_turn_ended {
        n.turn_start = obs_board;
        n.turns += 1;
        let h = Arc::make_mut(&mut n.history);
        *h.entry((obs_board, obs_gold)).or_insert(0) += 1;
    } else {
        n.pend = applied.as_ref().map_or(Pend::None, |a| a.pend);
        n.step_boards = sh.step_boards.clone();
        n.step_boards.push(sh.board);
        n.captured_this_turn = sh.captured_this_turn || applied.as_ref().map_or(false, |a| !a.captured.is_empty());
    }
    Ok(StepOut {
        after,
        sh_after: n,
        applied,
        obs_board,
        obs_gold,
        obs_step,
        obs_moveno,
        exp_board,
        exp_gold,
        exp_step,
        exp_moveno,
        turn_ended,
        resynced,
    })
}

pub fn choose(policy: &mut Policy, script_pos: &mut usize, rng: &mut Rng, q: &Queries, sh: &Shadow) -> Option<Code> {
    let rep = &q.pick;
    if rep.is_empty() {
        return None;
    }
    let uniform = |rng: &mut Rng| rep[rng.below(rep.len())];
    let enemy_step = |c: &Code| is_step(*c) && sh.board.0[code_sq(*c)] != 0 && is_gold(sh.board.0[code_sq(*c)]) != sh.gold;
    Some(match policy {
        Policy::Uniform => uniform(rng),
        Policy::PushLover => {
            let en: Vec<Code> = rep.iter().copied().filter(enemy_step).collect();
            if !en.is_empty() && rng.chance(3, 4) {
                en[rng.below(en.len())]
            } else {
                uniform(rng)
            }
        }
        Policy::PullLover => {
            if let Pend::Pull(sq, _) = sh.pend {
                let en: Vec<Code> = rep
                    .iter()
                    .copied()
                    .filter(|c| enemy_step(c) && nb(code_sq(*c), code_dir(*c)) == Some(sq as usize))
                    .collect();
                if !en.is_empty() && rng.chance(4, 5) {
                    return Some(en[rng.below(en.len())]);
                }
            }
            // prefer stepping a non-rabbit piece that has a weaker enemy neighbour
            let cand: Vec<Code> = rep
                .iter()
                .copied()
                .filter(|c| {
                    is_step(*c) && !enemy_step(c) && {
                        let sq = code_sq(*c);
                        let me = sh.board.0[sq];
                        me != 0
                            && strength(me) > 0
                            && (0..4).any(|d| nb(sq, d).map_or(false, |n| sh.board.0[n] != 0 && is_gold(sh.board.0[n]) != sh.gold && strength(sh.board.0[n]) < strength(me)))
                    }
                })
                .collect();
            if !cand.is_empty() && sh.step < 3 && rng.chance(2, 3) {
                cand[rng.below(cand.len())]
            } else {
                uniform(rng)
            }
        }
        Policy::Passer => {
            if rep.contains(&PASS) && rng.chance(1, 3) {
                PASS
            } else {
                uniform(rng)
            }
        }
        Policy::CaptureSeeker => {
            let caps: Vec<Code> = rep
                .iter()
                .copied()
                .filter(|c| is_step(*c) && sh.board.apply(sh.gold, sh.pend, code_sq(*c), code_dir(*c)).map_or(false, |a| !a.captured.is_empty()))
                .collect();
            if !caps.is_empty() && rng.chance(3, 4) {
                caps[rng.below(caps.len())]
            } else {
                // move towards traps: prefer steps whose target is adjacent to / on a trap
                let near: Vec<Code> = rep
                    .iter()
                    .copied()
                    .filter(|c| is_step(*c) && nb(code_sq(*c), code_dir(*c)).map_or(false, |t| TRAPS.iter().any(|tr| *tr == t || (0..4).any(|d| nb(*tr, d) == Some(t)))))
                    .collect();
                if !near.is_empty() && rng.chance(1, 2) {
                    near[rng.below(near.len())]
                } else {
                    uniform(rng)
                }
            }
        }
        Policy::Reverser => {
            // never move rabbits when another action exists
            let nr: Vec<Code> = rep.iter().copied().filter(|c| !(is_step(*c) && sh.board.0[code_sq(*c)] != 0 && strength(sh.board.0[code_sq(*c)]) == 0)).collect();
            let pool: &[Code] = if nr.is_empty() { rep } else { &nr };
            let undo = sh.last.and_then(|l| if is_step(l) { nb(code_sq(l), code_dir(l)).map(|t| step_code(t, opp(code_dir(l)))) } else { None });
            if let Some(u) = undo {
                if pool.contains(&u) && rng.chance(1, 2) {
                    return Some(u);
                }
            }
            if pool.contains(&PASS) && rng.chance(1, 2) {
                PASS
            } else {
                pool[rng.below(pool.len())]
            }
        }
        Policy::Script(codes) => {
            if *script_pos < codes.len() && rep.contains(&codes[*script_pos]) {
                *script_pos += 1;
                codes[*script_pos - 1]
            } else {
                *script_pos = usize::MAX / 2;
                uniform(rng)
            }
        }
        Policy::Replay(codes) => {
            if *script_pos < codes.len() {
                // replay applies the recorded action even if it is no longer offered only when it
                // is at least in the rule-only list; otherwise the replay stops here
                let c = codes[*script_pos];
                if rep.contains(&c) {
                    *script_pos += 1;
                    c
                } else {
                    return None;
                }
            } else {
                return None;
            }
        }
    })
}

pub struct PlayOpts {
    pub max_turns: u32,
    pub max_actions: u32,
    /// expand the full turn tree (all step sequences) at turn starts with this probability (per mille)
    pub tree_per_mille: u32,
    pub tree_node_budget: usize,
    /// replay only: repeat a transposition-order level walk at the turn start reached after this many actions (count, depth)
    pub replay_level_tree: Option<(usize, u32)>,
    /// play this fraction of the games with look-alike decoys (decoy.rs)
    pub decoy_per_mille: u32,
    /// probability (per mille) of choosing each setup placement uniformly (else "rabbits first" bias)
    pub setup_uniform: bool,
}
impl Default for PlayOpts {
    fn default() -> Self {
        PlayOpts { max_turns: 200, max_actions: 4000, tree_per_mille: 0, tree_node_budget: 3000, replay_level_tree: None, decoy_per_mille: 120, setup_uniform: true }
    }
}

pub enum Outcome {
    Finished,
    Aborted,
}

/// Run the setup phase (if any) and return the first play-phase engine state with its shadow.
fn open(rec: &mut GameRecord, rng: &mut Rng, mon: &mut dyn Monitor, sink: &mut Sink) -> Option<(GameState, Shadow)> {
    match rec.start.clone() {
        Start::Text { board, gold, moveno } => {
            let text = board.to_text(gold, moveno);
            match parse_state(&text) {
                Ok(Ok(g)) => Some((g, Shadow::start(board, gold, moveno))),
                Ok(Err(_)) => {
                    sink.count("start_parse_rejected");
                    None
                }
                Err(p) => {
                    note_panic(rec, &p, mon, sink);
                    None
                }
            }
        }
        Start::Inject { board, gold, moveno } => match guard("constructors", || inject(&board, gold, moveno)) {
            Ok(g) => Some((g, Shadow::start(board, gold, moveno))),
            Err(p) => {
                note_panic(rec, &p, mon, sink);
                None
            }
        },
        Start::Setup { placements } => {
            let scripted = placements.len() == 32;
            let mut done: Vec<u8> = vec![];
            let mut g = match guard("GameState::initial", GameState::initial) {
                Ok(g) => g,
                Err(p) => {
                    note_panic(rec, &p, mon, sink);
                    return None;
                }
            };
            let mut model = SetupModel::new();
            for k in 0..32 {
                if rec.decoyed {
                    set_decoys(crate::decoy::setup_decoys(&done));
                }
                let r = (|| -> Result<(Vec<Action>, Vec<Action>, Option<bool>), PanicInfo> {
                    let offered = guard("valid_actions", || g.valid_actions())?;
                    let norep = guard("valid_actions_no_rep", || g.valid_actions_no_rep())?;
                    let term = guard("is_terminal", || g.is_terminal())?;
                    Ok((offered, norep, decode_term(&term)))
                })();
                let (offered, norep, term) = match r {
                    Ok(x) => x,
                    Err(p) => {
                        rec.start = Start::Setup { placements: done.clone() };
                        note_panic(rec, &p, mon, sink);
                        return None;
                    }
                };
                let offered_codes = codes_of(&offered);
                rec.start = Start::Setup { placements: done.clone() };
                mon.on_setup_state(&SetupObs { rec, g: &g, model: &model, offered: &offered, offered_codes: &offered_codes, norep: &norep, term }, sink);
                let st: u8 = if scripted {
                    placements[k]
                } else {
                    let places: Vec<u8> = offered_codes.iter().filter(|c| **c >= 257 && **c < 263).map(|c| (*c - 257) as u8).collect();
                    if places.is_empty() {
                        sink.count("setup_no_placement_offered");
                        return None;
                    }
                    places[rng.below(places.len())]
                };
                if !offered_codes.contains(&place_code(st)) {
                    sink.count("setup_script_not_offered");
                    return None;
                }
                let ng = match guard_act("take_action", &code_act(place_code(st)), || g.take_action(&code_act(place_code(st)))) {
                    Ok(x) => x,
                    Err(p) => {
                        done.push(st);
                        rec.start = Start::Setup { placements: done.clone() };
                        note_panic(rec, &p, mon, sink);
                        return None;
                    }
                };
                let before_model = model.clone();
                model.place(st);
                done.push(st);
                rec.start = Start::Setup { placements: done.clone() };
                mon.on_setup_transition(&SetupTrans { rec, before: &g, model_before: &before_model, strength: st, after: &ng, model_after: &model }, sink);
                g = ng;
            }
            if !g.is_play_phase() {
                sink.count("setup_did_not_reach_play");
                return None;
            }
            let r = (|| -> Result<(MBoard, bool, u64), PanicInfo> {
                Ok((
                    guard("piece_board", || decode_board(g.piece_board()))?,
                    guard("is_p1_turn_to_move", || g.is_p1_turn_to_move())?,
                    guard("move_number", || g.move_number())? as u64,
                ))
            })();
            match r {
                Ok((b, gold, mv)) => Some((g, Shadow::start(b, gold, mv))),
                Err(p) => {
                    note_panic(rec, &p, mon, sink);
                    None
                }
            }
        }
    }
}

fn note_panic(rec: &GameRecord, p: &PanicInfo, mon: &mut dyn Monitor, sink: &mut Sink) {
    sink.engine_panics += 1;
    *sink.panic_sites.entry(format!("{} @ {}", p.api, p.site)).or_insert(0) += 1;
    mon.on_panic(rec, p, sink);
}

/// Judge the synthetic twins the monitor asked for (every fourth state, chosen by the state's fingerprint so that
/// a replay judges the same ones).
/// every how many states (by fingerprint) twins are judged: 4 in quick runs, 12 in thorough runs, 1 in replays
pub static TWIN_MOD: std::sync::atomic::AtomicU64 = std::sync::atomic::AtomicU64::new(4);

pub fn judge_twins(o: &Obs, mon: &mut dyn Monitor, sink: &mut Sink) {
    let kinds = mon.twin_kinds();
    if kinds == 0 || o.sh.fingerprint() % TWIN_MOD.load(std::sync::atomic::Ordering::Relaxed).max(1) != 0 {
        return;
    }
    let saved = take_decoys();
    for (kind, t) in crate::decoy::judged_twins(o.g, kinds) {
        let name = match kind {
            1 => "rebuilt twin: the same state re-assembled with the public constructors",
            2 => "saturated twin: the same state with a past in which every position a turn-ending action could create began two earlier turns",
            _ => "half-saturated twin: the same state with a past in which every other position a turn-ending action could create began two earlier turns",
        };
        match observe(&t) {
            Ok(q) => {
                let o2 = Obs { rec: o.rec, g: &t, sh: o.sh, norep: &q.norep, norep_codes: &q.norep_codes, rep: &q.rep, rep_codes: &q.rep_codes, term: q.term, linear: false };
                sink.context = Some(name.to_string());
                mon.on_twin_state(kind, &o2, sink);
                sink.context = None;
                sink.count("synthetic_twin_states_judged");
                if kind != 1 && q.rep_codes.is_empty() {
                    sink.count("saturated_twins_with_nothing_offered");
                }
            }
            Err(p) => {
                if kind == 1 {
                    note_panic(o.rec, &p, mon, sink);
                } else {
                    sink.count("panics_on_saturated_twins_ignored");
                }
            }
        }
    }
    set_decoys(saved);
}

/// Play one game. `rec.actions` is filled with the actions applied.
pub fn play(rec: &mut GameRecord, mut policy: Policy, opts: &PlayOpts, rng: &mut Rng, mon: &mut dyn Monitor, sink: &mut Sink) -> Outcome {
    sink.games += 1;
    if !matches!(policy, Policy::Replay(_)) {
        rec.decoyed = opts.decoy_per_mille > 0 && rng.below(1000) < opts.decoy_per_mille as usize;
        rec.rep_first = rng.chance(1, 4);
        let oo = OFFERED_ONLY_PER_MILLE.load(std::sync::atomic::Ordering::Relaxed);
        rec.offered_only = oo > 0 && rng.below(1000) < oo as usize;
    }
    REP_FIRST.with(|c| c.set(rec.rep_first));
    OFFERED_ONLY.with(|c| c.set(rec.offered_only));
    if rec.offered_only {
        sink.count("games_on_the_offered_only_diet");
    }
    // in every other decoyed game the decoys step only after the monitored state, never before it
    set_decoy_post_only(rec.decoyed && rec.index % 2 == 1);
    if rec.decoyed {
        sink.count("games_played_with_lookalike_decoys");
    }
    if rec.rep_first {
        sink.count("games_with_valid_actions_asked_before_no_rep");
    }
    mon.on_game_start(rec, sink);
    let (mut g, mut sh) = match open(rec, rng, mon, sink) {
        Some(x) => x,
        None => {
            sink.games_aborted += 1;
            mon.on_game_end(rec, sink);
            take_decoys();
            REP_FIRST.with(|c| c.set(false));
            OFFERED_ONLY.with(|c| c.set(false));
            return Outcome::Aborted;
        }
    };
    take_decoys();
    let mut script_pos = 0usize;
    let mut outcome = Outcome::Finished;
    loop {
        if rec.decoyed {
            set_decoys(crate::decoy::play_decoys(&g));
        }
        let q = match observe(&g) {
            Ok(q) => q,
            Err(p) => {
                note_panic(rec, &p, mon, sink);
                sink.games_aborted += 1;
                outcome = Outcome::Aborted;
                break;
            }
        };
        {
            let o = Obs { rec, g: &g, sh: &sh, norep: &q.norep, norep_codes: &q.norep_codes, rep: &q.rep, rep_codes: &q.rep_codes, term: q.term, linear: true };
            mon.on_state(&o, sink);
            judge_twins(&o, mon, sink);
        }
        if sh.step == 0 && q.term.is_some() {
            break;
        }
        if q.rep.is_empty() && sh.step > 0 {
            sink.count("mid_turn_states_with_empty_offered_list");
            if q.norep_codes.iter().all(|c| *c == PASS) {
                sink.count("mid_turn_states_where_only_a_withheld_pass_remains");
            }
        }
        if q.rep.is_empty() || sh.turns >= opts.max_turns || sh.actions >= opts.max_actions {
            break;
        }
        if opts.tree_per_mille > 0 && sh.step == 0 && rng.below(1000) < opts.tree_per_mille as usize {
            let mut budget = opts.tree_node_budget;
            let mut sub = rec.clone();
            let saved = take_decoys(); // the decoys resemble `g`, not the nodes of its tree
            if rng.chance(1, 2) {
                walk(&g, &sh, &q, &mut sub, 4, &mut budget, rng, mon, sink, false);
            } else {
                walk_levels(&g, &sh, &q, &mut sub, 4, &mut budget, rng, mon, sink);
            }
            set_decoys(saved);
        }
        if let Some((at, depth)) = opts.replay_level_tree {
            if at == rec.actions.len() {
                let mut budget = usize::MAX;
                let mut sub = rec.clone();
                let saved = take_decoys();
                walk_levels(&g, &sh, &q, &mut sub, depth, &mut budget, rng, mon, sink);
                set_decoys(saved);
            }
        }
        let code = match choose(&mut policy, &mut script_pos, rng, &q, &sh) {
            Some(c) => c,
            None => break,
        };
        let out = match step(&g, &sh, code) {
            Ok(o) => o,
            Err(p) => {
                rec.actions.push(code);
                note_panic(rec, &p, mon, sink);
                sink.games_aborted += 1;
                outcome = Outcome::Aborted;
                break;
            }
        };
        if out.resynced {
            sink.resyncs += 1;
        }
        rec.actions.push(code);
        if rec.decoyed {
            set_decoys(crate::decoy::play_decoys(&out.after));
        }
        {
            let o = Obs { rec, g: &g, sh: &sh, norep: &q.norep, norep_codes: &q.norep_codes, rep: &q.rep, rep_codes: &q.rep_codes, term: q.term, linear: true };
            let action = code_act(code);
            let t = Trans {
                rec,
                before: &o,
                code,
                action: &action,
                after: &out.after,
                obs_board: out.obs_board,
                obs_gold: out.obs_gold,
                obs_step: out.obs_step,
                obs_moveno: out.obs_moveno,
                applied: out.applied.as_ref(),
                exp_board: out.exp_board,
                exp_gold: out.exp_gold,
                exp_step: out.exp_step,
                exp_moveno: out.exp_moveno,
                turn_ended: out.turn_ended,
                sh_after: &out.sh_after,
            };
            mon.on_transition(&t, sink);
        }
        if rec.rep_first {
            // these games also carry ONE state object along, overwritten in place at every step
            let next = out.after;
            if guard("clone_from", || g.clone_from(&next)).is_err() {
                g = next;
            }
        } else {
            g = out.after;
        }
        sh = out.sh_after;
    }
    take_decoys();
    REP_FIRST.with(|c| c.set(false));
    OFFERED_ONLY.with(|c| c.set(false));
    let dc = decoy_calls();
    if dc > 0 {
        sink.add("lookalike_decoy_calls", dc);
    }
    mon.on_game_end(rec, sink);
    outcome
}

/// Expand the turn tree below `g`: every state reachable inside this turn through offered
/// actions (up to `depth` further steps), plus the turn-start states that end it.
/// `visit_root`: whether on_state is called for the root itself.
#[allow(clippy::too_many_arguments)]
pub fn walk(g: &GameState, sh: &Shadow, q: &Queries, rec: &mut GameRecord, depth: u32, budget: &mut usize, rng: &mut Rng, mon: &mut dyn Monitor, sink: &mut Sink, visit_root: bool) {
    if visit_root {
        let o = Obs { rec, g, sh, norep: &q.norep, norep_codes: &q.norep_codes, rep: &q.rep, rep_codes: &q.rep_codes, term: q.term, linear: false };
        mon.on_state(&o, sink);
            judge_twins(&o, mon, sink);
    }
    if depth == 0 || (sh.step == 0 && q.term.is_some()) {
        return;
    }
    // when the budget is short, sub-sample the children
    let mut order: Vec<Code> = q.pick.clone();
    if *budget < order.len() * 4 {
        rng.shuffle(&mut order);
        order.truncate((*budget / 4).max(1).min(order.len()));
    }
    for code in order {
        if *budget == 0 {
            return;
        }
        *budget -= 1;
        let out = match step(g, sh, code) {
            Ok(o) => o,
            Err(p) => {
                rec.actions.push(code);
                note_panic(rec, &p, mon, sink);
                rec.actions.pop();
                continue;
            }
        };
        if out.resynced {
            sink.resyncs += 1;
        }
        rec.actions.push(code);
        {
            let o = Obs { rec, g, sh, norep: &q.norep, norep_codes: &q.norep_codes, rep: &q.rep, rep_codes: &q.rep_codes, term: q.term, linear: false };
            let action = code_act(code);
            let t = Trans {
                rec,
                before: &o,
                code,
                action: &action,
                after: &out.after,
                obs_board: out.obs_board,
                obs_gold: out.obs_gold,
                obs_step: out.obs_step,
                obs_moveno: out.obs_moveno,
                applied: out.applied.as_ref(),
                exp_board: out.exp_board,
                exp_gold: out.exp_gold,
                exp_step: out.exp_step,
                exp_moveno: out.exp_moveno,
                turn_ended: out.turn_ended,
                sh_after: &out.sh_after,
            };
            mon.on_transition(&t, sink);
        }
        match observe(&out.after) {
            Ok(q2) => {
                let ended = out.sh_after.step == 0;
                walk(&out.after, &out.sh_after, &q2, rec, if ended { 0 } else { depth - 1 }, budget, rng, mon, sink, true);
            }
            Err(p) => note_panic(rec, &p, mon, sink),
        }
        rec.actions.pop();
    }
}

struct LevelNode {
    g: GameState,
    sh: Shadow,
    q: Queries,
    path: Vec<Code>,
}

/// The same turn tree as `walk`, but expanded level by level in TRANSPOSITION ORDER: the states of a
/// level are sorted by the engine's own transposition hash, so that states reached by different step
/// orders (equal hash, different earlier boards) are expanded back to back, and all `take_action` calls
/// of a level are made before any successor is queried. Anything the engine remembers from the previous
/// call (memo tables keyed by hash, thread-local hand-overs) is thereby offered its worst case.
/// Findings carry `level_tree` in their record, and the replayer repeats the whole level walk.
#[allow(clippy::too_many_arguments)]
pub fn walk_levels(g: &GameState, sh: &Shadow, q: &Queries, rec: &mut GameRecord, depth: u32, budget: &mut usize, rng: &mut Rng, mon: &mut dyn Monitor, sink: &mut Sink) {
    if depth == 0 || (sh.step == 0 && q.term.is_some()) {
        return;
    }
    let base = rec.actions.len();
    rec.level_tree = Some((base, depth));
    let mut frontier: Vec<LevelNode> = vec![LevelNode { g: g.clone(), sh: sh.clone(), q: q.clone(), path: vec![] }];
    for level in 0..depth {
        if frontier.is_empty() {
            break;
        }
        let mut keyed: Vec<(u64, LevelNode)> = frontier.into_iter().map(|n| (guard("transposition_hash", || n.g.transposition_hash()).unwrap_or(0), n)).collect();
        keyed.sort_by(|a, b| (a.0, &a.1.path).cmp(&(b.0, &b.1.path)));
        let mut adjacent_equal = 0u64;
        for w in keyed.windows(2) {
            if w[0].0 == w[1].0 {
                adjacent_equal += 1;
            }
        }
        sink.add("level_walk_adjacent_equal_hash_pairs", adjacent_equal);
        let nodes: Vec<LevelNode> = keyed.into_iter().map(|x| x.1).collect();
        // phase 1: every take_action of this level, back to back
        let mut outs: Vec<(usize, Code, Result<StepOut, PanicInfo>)> = vec![];
        for (i, n) in nodes.iter().enumerate() {
            let mut order: Vec<Code> = n.q.pick.clone();
            if *budget < order.len() * 4 {
                rng.shuffle(&mut order);
                order.truncate((*budget / 4).max(1).min(order.len()));
            }
            for code in order {
                if *budget == 0 {
                    break;
                }
                *budget -= 1;
                outs.push((i, code, step(&n.g, &n.sh, code)));
            }
        }
        sink.add("level_walk_transitions", outs.len() as u64);
        // the successors are handed on through ONE scratch object that is overwritten in place (clone_from), in
        // the order of their hashes: its previous content is then often a transposed sibling (same board, side
        // and step, possibly another push/pull status or other earlier boards)
        outs.sort_by_key(|(i, c, r)| (r.as_ref().map_or(0, |o| guard("transposition_hash", || o.after.transposition_hash()).unwrap_or(0)), *i, *c));
        let mut scratch: Option<GameState> = None;
        for (_, _, r) in outs.iter_mut() {
            if let Ok(o) = r {
                let copied = guard("clone_from", || {
                    let mut d = match scratch.take() {
                        Some(d) => d,
                        None => o.after.clone(),
                    };
                    d.clone_from(&o.after);
                    d
                });
                if let Ok(d) = copied {
                    o.after = d.clone();
                    scratch = Some(d);
                    sink.count("level_walk_states_reseated_with_clone_from");
                }
            }
        }
        // phase 2: monitors, queries on the successors, next frontier
        let mut next: Vec<LevelNode> = vec![];
        for (i, code, r) in outs {
            let n = &nodes[i];
            rec.actions.truncate(base);
            rec.actions.extend_from_slice(&n.path);
            rec.actions.push(code);
            let out = match r {
                Ok(o) => o,
                Err(p) => {
                    note_panic(rec, &p, mon, sink);
                    continue;
                }
            };
            if out.resynced {
                sink.resyncs += 1;
            }
            {
                let o = Obs { rec, g: &n.g, sh: &n.sh, norep: &n.q.norep, norep_codes: &n.q.norep_codes, rep: &n.q.rep, rep_codes: &n.q.rep_codes, term: n.q.term, linear: false };
                let action = code_act(code);
                let t = Trans {
                    rec,
                    before: &o,
                    code,
                    action: &action,
                    after: &out.after,
                    obs_board: out.obs_board,
                    obs_gold: out.obs_gold,
                    obs_step: out.obs_step,
                    obs_moveno: out.obs_moveno,
                    applied: out.applied.as_ref(),
                    exp_board: out.exp_board,
                    exp_gold: out.exp_gold,
                    exp_step: out.exp_step,
                    exp_moveno: out.exp_moveno,
                    turn_ended: out.turn_ended,
                    sh_after: &out.sh_after,
                };
                mon.on_transition(&t, sink);
            }
            match observe(&out.after) {
                Ok(q2) => {
                    {
                        let o = Obs { rec, g: &out.after, sh: &out.sh_after, norep: &q2.norep, norep_codes: &q2.norep_codes, rep: &q2.rep, rep_codes: &q2.rep_codes, term: q2.term, linear: false };
                        mon.on_state(&o, sink);
            judge_twins(&o, mon, sink);
                    }
                    let ended = out.sh_after.step == 0;
                    if !ended && level + 1 < depth {
                        let mut path = n.path.clone();
                        path.push(code);
                        next.push(LevelNode { g: out.after, sh: out.sh_after, q: q2, path });
                    }
                }
                Err(p) => note_panic(rec, &p, mon, sink),
            }
        }
        frontier = next;
    }
    rec.actions.truncate(base);
    rec.level_tree = None;
    sink.count("level_walks");
}

/// Sweep entry: visit an injected turn-start state and its turn tree to `depth`.
pub fn sweep_root(rec: &mut GameRecord, depth: u32, rng: &mut Rng, mon: &mut dyn Monitor, sink: &mut Sink) {
    let (board, gold, moveno) = match &rec.start {
        Start::Inject { board, gold, moveno } => (*board, *gold, *moveno),
        _ => unreachable!("sweep roots are injected"),
    };
    let g = match guard("constructors", || inject(&board, gold, moveno)) {
        Ok(g) => g,
        Err(p) => {
            note_panic(rec, &p, mon, sink);
            return;
        }
    };
    let sh = Shadow::start(board, gold, moveno);
    match observe(&g) {
        Ok(q) => {
            let mut budget = usize::MAX;
            if rec.index % 2 == 0 || rec.level_tree.is_some() {
                walk(&g, &sh, &q, rec, depth, &mut budget, rng, mon, sink, true);
            } else {
                {
                    let o = Obs { rec, g: &g, sh: &sh, norep: &q.norep, norep_codes: &q.norep_codes, rep: &q.rep, rep_codes: &q.rep_codes, term: q.term, linear: false };
                    mon.on_state(&o, sink);
            judge_twins(&o, mon, sink);
                }
                walk_levels(&g, &sh, &q, rec, depth, &mut budget, rng, mon, sink);
            }
        }
        Err(p) => note_panic(rec, &p, mon, sink),
    }
}
