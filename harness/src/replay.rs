//! `avm replay <file>`: re-run exactly one recorded history under the property's monitor.

use crate::driver::*;
use crate::record::*;
use crate::rng::Rng;
use crate::runner::Cfg;
use crate::sink::Sink;
use serde_json::Value;

pub fn replay(_cfg: &Cfg, path: &str) -> i32 {
    let txt = match std::fs::read_to_string(path) {
        Ok(t) => t,
        Err(e) => {
            eprintln!("cannot read {}: {}", path, e);
            return 3;
        }
    };
    let v: Value = match serde_json::from_str(&txt) {
        Ok(v) => v,
        Err(e) => {
            eprintln!("not JSON: {}", e);
            return 3;
        }
    };
    let prop = v.get("property").and_then(|p| p.as_str()).unwrap_or("").to_string();
    let kind = v.get("kind").and_then(|p| p.as_str()).unwrap_or("game");
    if kind != "game" {
        return crate::replay_other(&prop, &v);
    }
    let rec0 = match GameRecord::from_json(&v) {
        Some(r) => r,
        None => {
            eprintln!("replay file has no game record");
            return 3;
        }
    };
    let mut mon = match crate::monitor_for(&prop) {
        Some(m) => m,
        None => {
            eprintln!("no game monitor for property {:?}", prop);
            return 3;
        }
    };
    TWIN_MOD.store(1, std::sync::atomic::Ordering::Relaxed); // every state's twins, a superset of what the run judged
    let mut sink = Sink::new();
    let mut rng = Rng::new(0, 0);
    let mut rec = GameRecord::new(&rec0.family, rec0.seed, rec0.index, rec0.start.clone());
    // a finding of a transposition-order level walk may depend on the order of expansion: repeat the walk at its root
    let opts = PlayOpts { max_turns: u32::MAX, max_actions: u32::MAX, replay_level_tree: rec0.level_tree, ..PlayOpts::default() };
    play(&mut rec, Policy::Replay(rec0.actions.clone()), &opts, &mut rng, mon.as_mut(), &mut sink);
    mon.finish(&mut sink);
    println!("replayed {} of {} recorded actions under monitor {}", rec.actions.len(), rec0.actions.len(), prop);
    if sink.violation_count > 0 {
        for v in &sink.violations {
            println!("  clause={} {}", v.clause, v.detail);
        }
        println!("VIOLATION property={} replay={}", prop, path);
        1
    } else {
        println!("no violation on this history with the current tree");
        0
    }
}
