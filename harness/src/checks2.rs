//! Check plans for C04, C09, C11, C15, C16, C17, C19.

use crate::checks::*;
use crate::driver::*;
use crate::eng::*;
use crate::gen;
use crate::model::*;
use crate::mon_more::*;
use crate::mon_rules::*;
use crate::record::*;
use crate::rng::Rng;
use crate::runner::*;
use crate::sink::Sink;
use crate::strings;
use crate::sym;
use crate::workloads::*;
use arimaa_engine_step::*;
use serde_json::{json, Map, Value};

fn report(evals: &'static str, rule: &str, floors: Vec<Floor>, assumptions: &[&str]) -> Report {
    let mut a: Vec<String> = assumptions.iter().map(|s| s.to_string()).collect();
    a.push("coverage is what the seeded workloads reached; nothing is claimed about unvisited inputs".into());
    a.push("engine built from /repo's working tree with overflow checks and debug assertions on".into());
    Report { evaluations_counter: evals, rule: rule.to_string(), assumptions: a, floors, level: "exploration", exhaustive: None, extra: Map::new(), inconclusive: vec![] }
}

// ---------------------------------------------------------------------------------------------
pub fn c04(cfg: &Cfg) -> i32 {
    let per_class = cfg.n(150, 20_000);
    let sink = run_parallel(cfg, |w, sink| {
        let mut mon = C04::default();
        let mut rng = Rng::new(cfg.seed, 0x400 + w as u64);
        let opts = PlayOpts { max_turns: 2, max_actions: 10, ..PlayOpts::default() };
        // W4: every class x goal square
        let mut idx = 0u64;
        for last in 0..3u8 {
            for mover in 0..3u8 {
                for imm in [false, true] {
                    for gold in [true, false] {
                        for gsq in 0..8usize {
                            for rep in 0..per_class {
                                if (idx as usize) % cfg.workers != w {
                                    idx += 1;
                                    continue;
                                }
                                idx += 1;
                                // when neither side has a goal rabbit the goal square is irrelevant: thin out
                                if last != 0 && mover != 0 && gsq > 1 && rep % 4 != 0 {
                                    continue;
                                }
                                match gen::w4(&mut rng, last, mover, imm, gold, gsq) {
                                    Some((b, g, mv)) => {
                                        sink.count("w4_positions_constructed");
                                        let start = if rng.chance(1, 10) { Start::Text { board: b, gold: g, moveno: mv } } else { Start::Inject { board: b, gold: g, moveno: mv } };
                                        let mut rec = GameRecord::new("W4-terminal", cfg.seed, idx, start);
                                        play(&mut rec, Policy::Uniform, &opts, &mut rng, &mut mon, sink);
                                    }
                                    None => sink.count("w4_construction_failed"),
                                }
                            }
                        }
                    }
                }
            }
        }
        // W4c: barely mobile movers (immobilised, or only pushes available)
        for k in 0..cfg.n(40_000, 6_000_000) {
            if let Some((b, g, mv)) = gen::w4c(&mut rng) {
                let start = if rng.chance(1, 20) { Start::Text { board: b, gold: g, moveno: mv } } else { Start::Inject { board: b, gold: g, moveno: mv } };
                let mut rec = GameRecord::new("W4c-barely-mobile", cfg.seed, (w as u64) << 32 | k, start);
                let o1 = PlayOpts { max_turns: 1, max_actions: 5, ..PlayOpts::default() };
                play(&mut rec, Policy::Uniform, &o1, &mut rng, &mut mon, sink);
            }
        }
        // incidental: ordinary games + goal-rush games (few pieces, rabbits advanced)
        let optg = PlayOpts { max_turns: 60, max_actions: 250, ..PlayOpts::default() };
        play_family(Family::W1, cfg.n(2000, 150_000), cfg.seed, w, 20, &optg, &mut mon, sink);
        play_family(Family::W2, cfg.n(2000, 150_000), cfg.seed, w, 20, &optg, &mut mon, sink);
        play_family(Family::W3, cfg.n(600, 8000), cfg.seed, w, 20, &optg, &mut mon, sink);
        play_family(Family::W7, cfg.n(60, 800), cfg.seed, w, 0, &optg, &mut mon, sink);
        sweep(2, &[0, 1, 5], 1, w, cfg.workers, 1, cfg.seed, &mut mon, sink);
        mon.finish(sink);
    });
    let mut floors = vec![floor("turn_start_states_judged", 200_000, 2_000_000), floor("condition_classes_seen", 18, 18), floor("immobilised_mover_positions", 500, 5000), floor("mid_turn_states_with_rabbit_on_goal", 1000, 10_000), floor("mid_turn_states_with_rabbitless_side", 1000, 10_000), floor("setup_states_judged", 1000, 10_000), floor("only_pushes_available_positions", 4000, 100_000), floor("single_legal_action_is_push_of_rabbit_backward", 300, 8000), floor("single_legal_action_is_push_of_rabbit_forward", 300, 8000), floor("single_legal_action_is_push_of_rabbit_sideways", 300, 8000), floor("single_legal_action_is_push_of_non_rabbit_backward", 200, 5000), floor("single_legal_action_is_push_of_non_rabbit_forward", 150, 4000)];
    for m in ["mover", "last"] {
        for c in ["gold", "silver"] {
            for f in "abcdefgh".chars() {
                let name: &'static str = Box::leak(format!("goal_{}_{}_{}", m, c, f).into_boxed_str());
                floors.push(floor(name, 50, 500));
            }
        }
    }
    conclude(cfg, sink, report("turn_start_states_judged", "W4 constructor: all 18 consistent combinations of (last mover: rabbit on goal / rabbits / none) x (mover: same) x (mover immobile or not) x side to move x every goal square, completed randomly and verified against the model's predicates, each followed by up to 2 turns of play (mid-turn goal / elimination states); plus W4c barely-mobile movers (one strong piece hemmed in, rabbit frozen: immobilised or with only pushes available, singled out per pushed type and direction), W1/W2/W3/W7 games and the 2-piece sweep. At every turn start is_terminal() is compared with the reference result function (official order). distinct_nontrivial = distinct (board, side) at which at least one of the five conditions holds.", floors, &["the reference result function follows the order stated in the property"]))
}

// ---------------------------------------------------------------------------------------------
/// One sparse setup walk (see c09): `order` = 32 strength codes, questions only before the placements in `ask`.
pub fn sparse_setup_walk(order: &[u8], ask: &[usize], k: u64, sink: &mut Sink) {
    let t = tables();
    let mut g = GameState::initial();
    let mut model = SetupModel::new();
    // other setup positions (an unrelated arrangement, slot by slot): in every other walk some of them are
    // questioned - not judged - right before a placement that is made without a question of its own:
    // the same slot of the other colour, the next slot, the same slot
    let foreign: Vec<GameState> = if k % 2 == 0 {
        let mut v = Vec::with_capacity(32);
        let mut f = GameState::initial();
        let canon: [u8; 16] = [0, 0, 0, 0, 0, 0, 0, 0, 1, 2, 3, 4, 5, 3, 2, 1];
        for i in 0..32usize {
            v.push(f.clone());
            let st = canon[(i + k as usize / 2) % 16];
            // a rotated canonical order keeps the complement: every type count is preserved under rotation
            f = match guard("take_action", || f.take_action(&Action::Place(t.piece[st as usize]))) {
                Ok(x) => x,
                Err(_) => break,
            };
        }
        v
    } else {
        Vec::new()
    };
    for (i, st) in order.iter().enumerate() {
        if foreign.len() == 32 && !ask.contains(&i) {
            let which = (i * 7 + k as usize) % 5;
            let j = match which {
                0 | 1 => Some((i + 16) % 32),
                2 => Some((i + 1) % 32),
                3 => Some(i),
                _ => None,
            };
            if let Some(j) = j {
                let _ = guard("valid_actions", || (foreign[j].valid_actions().len(), foreign[j].valid_actions_no_rep().len()));
                sink.count("sparse_setup_walk_foreign_questions");
            }
        }
        if ask.contains(&i) {
            sink.count("sparse_setup_walk_questions");
            match guard("valid_actions", || (codes_of(&g.valid_actions()), codes_of(&g.valid_actions_no_rep()))) {
                Ok((a, b)) => {
                    let exp = model.offered();
                    if ActSet::from_codes(&a) != exp || ActSet::from_codes(&b) != exp {
                        let sig = format!("C09|sparse|{}|{}", k, i);
                        let all: String = order.iter().map(|x| LETTERS[*x as usize]).collect();
                        sink.violate("C09", "offered_placements_ne_remaining_complement", sig, format!("sparse walk over the placements {} (no question in between, questions only before placements {:?}): before placement {} offered={} rule-only={} expected={}", all, ask, i, ActSet::from_codes(&a).text(), ActSet::from_codes(&b).text(), exp.text()), json!({"kind": "c09_sparse", "order": all, "questions_before": ask, "walk": k}));
                    }
                }
                Err(p) => {
                    sink.engine_panics += 1;
                    *sink.panic_sites.entry(format!("{} @ {}", p.api, p.site)).or_insert(0) += 1;
                }
            }
        }
        g = match guard("take_action", || g.take_action(&Action::Place(t.piece[*st as usize]))) {
            Ok(x) => x,
            Err(_) => break,
        };
        model.place(*st);
    }
    // the finished setup: every piece where its placement belongs, Gold to move, play phase
    if model.done() {
        sink.count("sparse_setup_walk_final_positions_judged");
        let r = guard("piece_board", || (decode_board(g.piece_board()), g.is_p1_turn_to_move(), g.is_play_phase(), g.current_step(), g.valid_actions().len()));
        let bad = match &r {
            Ok((b, gold, play, step, n)) => *b != model.board || !*gold || !*play || *step != 0 || *n == 0,
            Err(_) => true,
        };
        if bad {
            let sig = format!("C09|sparse_final|{}", k);
            let all: String = order.iter().map(|x| LETTERS[*x as usize]).collect();
            let got = match &r {
                Ok((b, gold, play, step, n)) => format!("board={} gold_to_move={} play_phase={} step={} offered={}", b.compact(), gold, play, step, n),
                Err(p) => format!("panicked at {} {}", p.site, p.msg),
            };
            sink.violate("C09", "setup_result_ne_placements", sig, format!("sparse walk over the placements {} (questions only before placements {:?}, other setup positions questioned in between: {}): expected board={} Gold to move in the play phase, got {}", all, ask, foreign.len() == 32, model.board.compact(), got), json!({"kind": "c09_sparse", "order": all, "questions_before": ask, "walk": k}));
        }
    }
}

pub fn c09(cfg: &Cfg) -> i32 {
    let sink = run_parallel(cfg, |w, sink| {
        let mut mon = C09::default();
        let mut rng = Rng::new(cfg.seed, 0x900 + w as u64);
        let opts = PlayOpts { max_turns: 1, max_actions: 4, ..PlayOpts::default() };
        // the 972-vector sweep, per colour: scripted orders that pass through each count vector
        let mut vidx = 0usize;
        for r in 0..=8u8 {
            for c in 0..=2u8 {
                for d in 0..=2u8 {
                    for h in 0..=2u8 {
                        for m in 0..=1u8 {
                            for e in 0..=1u8 {
                                vidx += 1;
                                if vidx % cfg.workers != w {
                                    continue;
                                }
                                let v = [r, c, d, h, m, e];
                                for colour in 0..2 {
                                    let mut placements: Vec<u8> = vec![];
                                    for side in 0..2 {
                                        let mut first: Vec<u8> = vec![];
                                        let mut rest: Vec<u8> = vec![];
                                        for s in 0..6u8 {
                                            let take = if side == colour { v[s as usize] } else { 0 };
                                            for k in 0..COMPLEMENT[s as usize] {
                                                if k < take {
                                                    first.push(s)
                                                } else {
                                                    rest.push(s)
                                                }
                                            }
                                        }
                                        rng.shuffle(&mut first);
                                        rng.shuffle(&mut rest);
                                        placements.extend(first);
                                        placements.extend(rest);
                                    }
                                    let mut rec = GameRecord::new("W7-vector-sweep", cfg.seed, vidx as u64 * 2 + colour as u64, Start::Setup { placements });
                                    play(&mut rec, Policy::Uniform, &opts, &mut rng, &mut mon, sink);
                                }
                            }
                        }
                    }
                }
            }
        }
        play_family(Family::W7, cfg.n(64_000, 400_000), cfg.seed, w, 0, &opts, &mut mon, sink);
        // sparse walks: the same state object line is carried on by placements WITHOUT asking anything in between;
        // only at a few random prefixes the offered list is asked and compared (whatever a state remembers from an
        // earlier question, or hands to its successors, is then many placements old)
        {
            let t = tables();
            for k in 0..cfg.n(3000, 100_000) {
                let mut order: Vec<u8> = vec![];
                for _ in 0..2 {
                    let mut side: Vec<u8> = vec![];
                    for st in 0..6u8 {
                        for _ in 0..COMPLEMENT[st as usize] {
                            side.push(st);
                        }
                    }
                    rng.shuffle(&mut side);
                    order.extend(side);
                }
                let mut ask: Vec<usize> = (0..3).map(|_| rng.below(32)).collect();
                ask.push((ask[0] + 16) % 32); // the same slot of the other side
                let _ = &t;
                sparse_setup_walk(&order, &ask, k, sink);
                sink.count("sparse_setup_walks");
            }
        }
        mon.finish(sink);
    });
    let floors = vec![floor("sparse_setup_walks", 30_000, 1_000_000), floor("sparse_setup_walk_foreign_questions", 100_000, 3_000_000), floor("sparse_setup_walk_final_positions_judged", 30_000, 1_000_000), floor("setup_states_judged", 1_000_000, 50_000_000), floor("setups_completed", 30_000, 1_500_000), floor("gold_count_vectors_seen_of_971", 971, 971), floor("silver_count_vectors_seen_of_971", 971, 971)];
    conclude(cfg, sink, report("setup_states_judged", "W7: scripted placement orders that pass through every one of the 972 per-side count vectors for both colours, plus random placement orders chosen from the engine's own offered lists; every prefix is a state. Offered placements are compared with the remaining complement, every placement with the model's next home square, and the switch to Silver / to the play phase with the statement. distinct_nontrivial = distinct (partial board, number placed).", floors, &["the setup model in harness/src/model.rs states the placement order of the property"]))
}

// ---------------------------------------------------------------------------------------------
pub fn c11(cfg: &Cfg) -> i32 {
    let sink = run_parallel(cfg, |w, sink| {
        let mut rng = Rng::new(cfg.seed, 0x1100 + w as u64);
        let mut st = sym::TwinStats { states: [0; 3], captures: 0, withheld_states: 0, terminals: [0; 3] };
        let n = cfg.n(12_000, 250_000);
        for i in 0..n {
            let (mirror, flip) = [(true, false), (false, true), (true, true)][(i % 3) as usize];
            let fam = i % 10;
            let (b, gold, mv, pol, turns) = if i % 50 == 7 {
                // one step away from a mirror-symmetric board: afterwards game and image show the same board
                match gen::one_step_from_symmetric(&mut rng) {
                    Some((b, g, m, code)) => {
                        sink.count("games_from_one_step_before_a_symmetric_board");
                        (b, g, m, Policy::Script(vec![code]), 60)
                    }
                    None => {
                        let (b, g, m) = gen::w1(&mut rng);
                        (b, g, m, policy_for(Family::W1, &mut rng), 100)
                    }
                }
            } else if fam < 3 {
                let (b, g, m) = gen::w1(&mut rng);
                (b, g, m, policy_for(Family::W1, &mut rng), 100)
            } else if fam < 5 {
                let (b, g, m) = gen::w2(&mut rng);
                (b, g, m, policy_for(Family::W2, &mut rng), 100)
            } else if fam < 8 {
                let (b, g, m) = gen::w3(&mut rng);
                (b, g, m, policy_for(Family::W3, &mut rng), 300)
            } else if fam < 9 {
                let (b, g, m) = gen::w3(&mut rng);
                match cycler_script(&b, g, &mut rng) {
                    Some(s) => (b, g, m, Policy::Script(s), 300),
                    None => (b, g, m, Policy::Reverser, 300),
                }
            } else if i % 40 == 9 {
                // W5c: far-apart repetitions
                let (b, g, m) = long_cycler_position(&mut rng);
                match long_cycler_script(&b, g, 40 + rng.below(60), &mut rng) {
                    Some(s) => (b, g, m, Policy::Script(s), 500),
                    None => (b, g, m, Policy::Reverser, 300),
                }
            } else {
                // W5b: states where every turn-ender is withheld
                // (and W5d take-back cyclers; half of them start at move 1-3, where the two colours' move counters run apart)
                let sc = if i % 20 == 19 { takeback_script(&mut rng) } else { saturated_script(&mut rng) };
                let mv = if rng.chance(1, 2) { 1 + rng.below(3) as u64 } else { 2 + rng.below(40) as u64 };
                match sc {
                    Some((b, g, s, _)) => (b, g, mv, Policy::Script(s), 300),
                    None => {
                        let (b, g, m) = gen::w3(&mut rng);
                        (b, g, m, Policy::Reverser, 300)
                    }
                }
            };
            let start = if rng.chance(1, 8) { Start::Text { board: b, gold, moveno: mv } } else { Start::Inject { board: b, gold, moveno: mv } };
            let mut rec = GameRecord::new("twin", cfg.seed, (w as u64) << 32 | i, start);
            sym::twin_game(&mut rec, pol, turns, mirror, flip, &mut rng, &mut st, sink);
        }
        let names = ["mirror", "colour_swap_rank_flip", "both"];
        for t in 0..3 {
            sink.add(&format!("twin_states_{}", names[t]), st.states[t]);
            sink.add(&format!("terminal_results_{}", names[t]), st.terminals[t]);
        }
        sink.add("twin_states", st.states.iter().sum());
        sink.add("capture_previews_compared_nonempty", st.captures);
        sink.add("states_with_withheld_actions", st.withheld_states);
    });
    let floors = vec![floor("twin_states", 800_000, 8_000_000), floor("twin_states_mirror", 200_000, 2_000_000), floor("twin_states_colour_swap_rank_flip", 200_000, 2_000_000), floor("twin_states_both", 200_000, 2_000_000), floor("capture_previews_compared_nonempty", 3000, 30_000), floor("states_with_withheld_actions", 10_000, 100_000), floor("terminal_results_mirror", 100, 1000), floor("terminal_results_colour_swap_rank_flip", 100, 1000)];
    conclude(cfg, sink, report("twin_states", "W1/W2/W3/W5/W5b/W5c games played in lock-step with their image under file mirror, colour swap + rank flip, or both (round robin); at every state the image of the offered set, of the rule-only set, of the result and of the capture preview of the chosen action must equal the twin's, and the boards must stay images. Order of lists, hashes and move numbers are not compared. distinct_nontrivial = distinct states with withheld actions plus distinct (state, capturing action).", floors, &["no oracle other than the engine itself (metamorphic)"]))
}

// ---------------------------------------------------------------------------------------------
fn run_plain_child(cfg: &Cfg, what: &str) -> Result<Value, String> {
    let bin = std::env::var("AVM_PLAIN_BIN").map_err(|_| "AVM_PLAIN_BIN not set (run through check.sh)".to_string())?;
    let out = std::process::Command::new(&bin)
        .args(["check", what, "--tier", cfg.tier.name(), "--seed", &cfg.seed.to_string(), "--verif-dir", cfg.verif_dir.to_str().unwrap()])
        .env("VERIF_SCALE", cfg.scale.to_string())
        .output()
        .map_err(|e| format!("cannot start {}: {}", bin, e))?;
    let text = String::from_utf8_lossy(&out.stdout).to_string();
    let line = text.lines().rev().find(|l| l.starts_with("CHILD-JSON ")).ok_or_else(|| format!("plain child gave no result (status {:?}): {}", out.status, text.chars().take(400).collect::<String>()))?;
    serde_json::from_str(&line["CHILD-JSON ".len()..]).map_err(|e| e.to_string())
}

fn sink_to_child_json(sink: &Sink) -> Value {
    json!({
        "counters": sink.all_counters(),
        "violation_count": sink.violation_count,
        "engine_panics": sink.engine_panics,
        "panic_sites": sink.panic_sites,
        "violations": sink.violations.iter().map(|v| json!({"property": v.property, "clause": v.clause, "sig": v.sig, "detail": v.detail, "witness": v.witness})).collect::<Vec<_>>(),
    })
}

fn absorb_child(sink: &mut Sink, child: &Value, prop: &'static str) {
    if let Some(vs) = child.get("violations").and_then(|v| v.as_array()) {
        for v in vs {
            let clause = v["clause"].as_str().unwrap_or("?").to_string();
            let mut w = v["witness"].clone();
            w["build"] = json!("plain release (no overflow checks)");
            sink.violate(prop, &clause, v["sig"].as_str().unwrap_or("?").to_string(), format!("[plain release build] {}", v["detail"].as_str().unwrap_or("")), w);
        }
    }
    let total = child.get("violation_count").and_then(|v| v.as_u64()).unwrap_or(0);
    let kept = child.get("violations").and_then(|v| v.as_array()).map_or(0, |a| a.len() as u64);
    sink.violation_count += total.saturating_sub(kept);
}

fn c15_strings(cfg: &Cfg) -> Sink {
    run_parallel(cfg, |w, sink| {
        strings::run_w9(cfg.n(120_000, 4_000_000), cfg.seed, w, sink);
    })
}

pub fn c15(cfg: &Cfg) -> i32 {
    // (a) round trips on visited states
    let mix = Mix { w1: (150, 4000), w2: (100, 2500), w3: (60, 1500), w7: (40, 1000), ..Mix::default() };
    let mut sink = run_mix(cfg, &mix, &|| Box::new(C15::default()));
    // (b) string fuzz, monitor profile
    sink.merge(c15_strings(cfg));
    let mut rep = report("strings_parsed", "(a) every setup and play state of W1/W2/W3/W7 games is printed, compared with the harness' independent rendering, re-parsed and compared (board, side, move number, turn-start status, identical reprint, and the transposition hash for turn-start states); (b) W9: fixed hostile inputs plus structured mutations of valid diagrams (header digits incl. 20-40 digit and non-ASCII numbers, row count 0..40, row width 0..40, inserted/deleted/doubled bars, shuffled lines, multi-byte characters) and random Unicode; only unwinding is judged for malformed text. Run in the monitor profile (overflow checks) and again in a plain release child. distinct_nontrivial = distinct fuzz strings plus distinct (board, move number, side) round-tripped.", vec![floor("strings_parsed", 1_000_000, 40_000_000), floor("play_states_round_tripped", 100_000, 1_000_000), floor("setup_states_round_tripped", 10_000, 100_000), floor("turn_start_hashes_compared", 30_000, 300_000), floor("parsed_ok", 100_000, 1_000_000), floor("class_header", 50_000, 1_000_000), floor("class_row_count", 50_000, 1_000_000), floor("class_row_width", 50_000, 1_000_000)], &["the harness' printer (model.rs to_text) is the independent rendering of the diagram format"]);
    match run_plain_child(cfg, "C15-strings") {
        Ok(child) => {
            absorb_child(&mut sink, &child, "C15");
            rep.extra.insert("plain_release_child".into(), json!({"counters": child["counters"], "engine_panics": child["engine_panics"], "panic_sites": child["panic_sites"], "violation_count": child["violation_count"]}));
        }
        Err(e) => rep.inconclusive.push(format!("plain-release child did not run: {}", e)),
    }
    conclude(cfg, sink, rep)
}

pub fn c15_strings_child(cfg: &Cfg) -> i32 {
    let sink = c15_strings(cfg);
    println!("CHILD-JSON {}", sink_to_child_json(&sink));
    0
}

// ---------------------------------------------------------------------------------------------
fn c16_strings(cfg: &Cfg) -> Sink {
    let mut s = run_parallel(cfg, |w, sink| {
        strings::run_w10(cfg.n(250_000, 12_000_000), cfg.seed, w, cfg.workers, sink);
    });
    strings::late_thread_prints(&mut s);
    s
}
pub fn c16(cfg: &Cfg) -> i32 {
    let mut sink = c16_strings(cfg);
    let mut rep = report("strings_judged", "W10: the value spaces completely (263 actions, 64 squares with all conversions, 6 pieces, 4 directions, 20k bitboards for map_bit_board_to_squares); every string of length 0..4 over a 45-symbol hostile alphabet (4 193 821 strings; includes characters equal to valid symbols modulo 256) and every printable-ASCII string of length 0..3 (866 496), each fed to the Action, Square, Piece and Direction parsers and compared with a reference grammar; every Unicode scalar value in every single position of 1-3 character notation strings (8 forms x 1 112 064 scalars); random longer strings, one-edit near-misses of valid actions and valid text with hostile tails; every action and square also printed under 16 formatter options (width, fill, alignment, sign, zero and alternate flags, Debug forms inherited from Vec and Option: with fill and container punctuation trimmed off the text must parse back to the value) and once more, in three orders, on fresh threads started after all other work. Run in the monitor profile and again in a plain release child. distinct_nontrivial = distinct random/near-miss strings (the exhaustive part is distinct by construction and reported separately).", vec![floor("strings_judged", 13_000_000, 13_000_000), floor("exhaustive_hostile_alphabet_len_le_4", 4_193_821, 4_193_821), floor("exhaustive_printable_ascii_len_le_3", 866_496, 866_496), floor("values_judged", 337, 337), floor("prints_under_format_options", 5_232, 5_232), floor("late_thread_prints", 981, 981), floor("unicode_position_sweep_strings", 8_896_512, 8_896_512), floor("action_accepted", 300, 300), floor("random_strings", 500_000, 50_000_000)], &["the reference grammar in model.rs (parse_*_ref) is the statement of the notation"]);
    rep.exhaustive = Some(false);
    rep.extra.insert("exhaustive_parts".into(), json!("all strings of length <= 4 over the 45-symbol alphabet; all printable-ASCII strings of length <= 3; all 263 + 64 + 6 + 4 values"));
    match run_plain_child(cfg, "C16-strings") {
        Ok(child) => {
            absorb_child(&mut sink, &child, "C16");
            rep.extra.insert("plain_release_child".into(), json!({"counters": child["counters"], "engine_panics": child["engine_panics"], "panic_sites": child["panic_sites"], "violation_count": child["violation_count"]}));
        }
        Err(e) => rep.inconclusive.push(format!("plain-release child did not run: {}", e)),
    }
    conclude(cfg, sink, rep)
}
pub fn c16_strings_child(cfg: &Cfg) -> i32 {
    let sink = c16_strings(cfg);
    println!("CHILD-JSON {}", sink_to_child_json(&sink));
    0
}

// ---------------------------------------------------------------------------------------------
/// C17 — W11: one-feature changes, enumerated completely per base state.
thread_local! {
    /// un-hashed context of the constructed states: (a piece was captured this turn, move number, extra history entries)
    static C17_CTX: std::cell::Cell<(bool, usize, usize)> = std::cell::Cell::new((false, 2, 0));
}
fn c17_state(b: &MBoard, gold: bool, step: u8, pend: Pend) -> GameState {
    let (trapped, moveno, extra) = C17_CTX.with(|c| c.get());
    let pb = piece_board_of(b);
    let h = Zobrist::from_piece_board(pb.piece_board(), gold, step as usize);
    let h0 = Zobrist::from_piece_board(pb.piece_board(), gold, 0);
    let prev: Vec<PieceBoard> = (0..step).map(|_| piece_board_of(b)).collect();
    let mut hist = List::new();
    for k in 0..extra {
        hist = hist.append(Zobrist::from_piece_board(piece_board_of(&MBoard::empty()).piece_board(), k % 2 == 0, 0));
    }
    let pp = PlayPhase::new(h0, hist.append(h0), prev, encode_pend(pend), trapped);
    GameState::new(gold, moveno, Phase::PlayPhase(pp), pb, h)
}
fn c17_hash(b: &MBoard, gold: bool, step: u8, pend: Pend) -> Result<u64, PanicInfo> {
    guard("constructors + transposition_hash", || c17_state(b, gold, step, pend).transposition_hash())
}
pub fn all_statuses() -> Vec<Pend> {
    let mut v = vec![Pend::None];
    for sq in 0..64u8 {
        for t in 0..5u8 {
            v.push(Pend::Push(sq, t)); // pushed piece: r c d h m
            v.push(Pend::Pull(sq, t + 1)); // pulling piece: c d h m e
        }
    }
    v
}
fn c17_base(b: &MBoard, gold: bool, step: u8, pend: Pend, base_name: &str, sink: &mut Sink) {
    let mut family = |name: &str, variants: Vec<(String, Result<u64, PanicInfo>)>, sink: &mut Sink| {
        let mut seen: std::collections::HashMap<u64, String> = std::collections::HashMap::new();
        let n = variants.len() as u64;
        for (label, h) in variants {
            match h {
                Err(p) => {
                    let sig = format!("C17|hash_query_panicked|{}|{}", name, label);
                    sink.violate("C17", "hash_query_panicked", sig, format!("base={} feature={} variant={} site={} {}", base_name, name, label, p.site, p.msg), json!({"kind": "c17", "base": base_name, "feature": name, "variant": label}));
                }
                Ok(h) => {
                    if let Some(other) = seen.get(&h) {
                        let sig = format!("C17|equal_hash|{}|{}|{}|{}", base_name, name, other, label);
                        sink.violate("C17", "one_feature_change_same_hash", sig, format!("base={} feature={}: variants {} and {} both hash to {:#018x}", base_name, name, other, label, h), json!({"kind": "c17", "base": base_name, "board": b.compact(), "gold": gold, "step": step, "feature": name, "variant_a": other, "variant_b": label}));
                    } else {
                        seen.insert(h, label);
                    }
                    sink.distinct(h);
                }
            }
        }
        if sink.want_sample() && (name.starts_with("status") || name.starts_with("square_content:d4")) {
            let mut first: Vec<String> = seen.iter().take(3).map(|(h, l)| format!("{} -> {:#018x}", l, h)).collect();
            first.sort();
            sink.sample(json!({"base": base_name, "family": name, "variants_in_family": n, "some_variants": first}));
        }
        sink.add(&format!("pairs_{}", name.split(':').next().unwrap()), n * (n.saturating_sub(1)) / 2);
        sink.add("pairs_compared", n * (n.saturating_sub(1)) / 2);
        sink.add("hash_evaluations", n);
    };
    // contents of each square (13 contents -> 78 pairs per square), in the base's context and in a
    // random (side, step, status) context per square (interactions between board and context)
    let statuses = all_statuses();
    let mut lcg = crate::model::fnv(b.compact().as_bytes()) | 1;
    let mut next = move || {
        lcg = lcg.wrapping_mul(6364136223846793005).wrapping_add(1442695040888963407);
        (lcg >> 33) as usize
    };
    for sq in 0..64usize {
        for ctx in 0..2 {
            let (g2, st2, p2) = if ctx == 0 { (gold, step, pend) } else { (next() % 2 == 0, (next() % 4) as u8, statuses[next() % statuses.len()]) };
            let mut v = vec![];
            for c in 0..13u8 {
                let mut nb_ = *b;
                nb_.0[sq] = c;
                v.push((format!("{}={}", sq_text(sq), if c == 0 { '.' } else { cell_char(c) }), c17_hash(&nb_, g2, st2, p2)));
            }
            family(&format!("square_content:{} in context side={} step={} status={:?}", sq_text(sq), if g2 { 'g' } else { 's' }, st2, p2), v, sink);
        }
    }
    // one piece of each kind on any of the squares that are empty in the base
    for c in 1..13u8 {
        for ctx in 0..2 {
            let (g2, st2, p2) = if ctx == 0 { (gold, step, pend) } else { (next() % 2 == 0, (next() % 4) as u8, statuses[next() % statuses.len()]) };
            let mut v = vec![];
            for sq in 0..64usize {
                if b.0[sq] == 0 {
                    let mut nb_ = *b;
                    nb_.0[sq] = c;
                    v.push((format!("{}@{}", cell_char(c), sq_text(sq)), c17_hash(&nb_, g2, st2, p2)));
                }
            }
            family(&format!("piece_location:{} in context side={} step={} status={:?}", cell_char(c), if g2 { 'g' } else { 's' }, st2, p2), v, sink);
        }
    }
    // side / step / status: every one-feature change in EVERY context of the other two - once in the plain
    // un-hashed context and once in the context "a piece was captured this turn, later move, longer history"
    for ctx in 0..2 {
    if ctx == 1 {
        C17_CTX.with(|c| c.set((true, 3 + next() % 200, 1 + next() % 40)));
        sink.count("bases_also_in_capture_this_turn_context");
    }
    let tag = if ctx == 1 { " (captured-this-turn context)" } else { "" };
    for st in 0..4u8 {
        for p in &statuses {
            family(&format!("side: at step={} status={:?}{}", st, p, tag), vec![("gold".into(), c17_hash(b, true, st, *p)), ("silver".into(), c17_hash(b, false, st, *p))], sink);
        }
    }
    for g in [true, false] {
        for p in &statuses {
            family(&format!("step: at side={} status={:?}{}", if g { 'g' } else { 's' }, p, tag), (0..4u8).map(|k| (format!("step{}", k), c17_hash(b, g, k, *p))).collect(), sink);
        }
        for st in 0..4u8 {
            family(&format!("status: at side={} step={}{}", if g { 'g' } else { 's' }, st, tag), statuses.iter().map(|p| (format!("{:?}", p), c17_hash(b, g, st, *p))).collect(), sink);
        }
    }
    }
    C17_CTX.with(|c| c.set((false, 2, 0)));
    sink.count("bases");
}
/// C17 on states reached by play: the hash the engine carries for a reached state (maintained
/// incrementally) must differ from the from-scratch hash of every state that differs from it in the
/// content of one square touched by the last step (source, destination, the four traps), in the
/// side, in the step or in the status. A piece that was captured but not hashed out makes "trap
/// empty" collide with "piece still on the trap".
#[derive(Default)]
struct C17Play {
    transitions: u64,
    variants: u64,
    after_capture: u64,
    /// older states of the same game (the turn start and the state two steps back), used as destinations of
    /// clone_from: the re-seated copy must carry the hash of the state it was copied from
    older: Vec<GameState>,
    reseated: u64,
}
impl Monitor for C17Play {
    fn on_transition(&mut self, t: &Trans, s: &mut Sink) {
        if !is_step(t.code) {
            return;
        }
        self.transitions += 1;
        // copies made in place over older states of the same game (same board at another step after a step and
        // its undo, or the same board met in another turn)
        for old in self.older.iter() {
            let r = guard("clone_from", || {
                let mut d = old.clone();
                d.clone_from(t.after);
                (d.transposition_hash(), t.after.transposition_hash(), d.current_step(), d == *t.after)
            });
            if let Ok((hd, ha, st, eq)) = r {
                self.reseated += 1;
                if hd != ha || st != t.obs_step as usize || !eq {
                    s.violate_game("C17", "reseated_copy_keeps_another_states_hash", t.rec, format!("after {}: a state overwritten in place with clone_from has hash {:#018x} and step {}, the state it was copied from has hash {:#018x} and step {} (equal by ==: {})", code_text(t.code), hd, st, ha, t.obs_step, eq));
                }
            }
        }
        if t.turn_ended || self.older.is_empty() {
            self.older.clear();
            self.older.push(t.after.clone());
        } else {
            self.older.truncate(1);
            self.older.push(t.before.g.clone());
        }
        let r = guard("hash of reached state", || (t.after.transposition_hash(), t.after.unwrap_play_phase().push_pull_state()));
        let (h, status) = match r {
            Ok(x) => x,
            Err(_) => return,
        };
        let b = t.obs_board;
        let (gold, step) = (t.obs_gold, t.obs_step);
        let scratch = |bb: &MBoard, g: bool, st: u8, ps: PushPullState| guard("from scratch", || Zobrist::from_piece_board(piece_board_of(bb).piece_board(), g, st as usize).board_state_hash_with_push_pull_state(ps));
        let captured = t.applied.map_or(false, |a| !a.captured.is_empty());
        if captured {
            self.after_capture += 1;
        }
        let mut squares: Vec<usize> = vec![code_sq(t.code)];
        if let Some(to) = nb(code_sq(t.code), code_dir(t.code)) {
            squares.push(to);
        }
        squares.extend(TRAPS.iter());
        for sq in squares {
            for c in 0..13u8 {
                if c == b.0[sq] {
                    continue;
                }
                let mut v = b;
                v.0[sq] = c;
                self.variants += 1;
                if let Ok(hv) = scratch(&v, gold, step, status) {
                    if hv == h {
                        s.violate_game("C17", "reached_state_hash_equals_one_square_variant", t.rec, format!("after {} the engine's hash {:#018x} equals the from-scratch hash of the same state with {}={} (actual content {}) board={}", code_text(t.code), h, sq_text(sq), if c == 0 { '.' } else { cell_char(c) }, if b.0[sq] == 0 { '.' } else { cell_char(b.0[sq]) }, b.compact()));
                    }
                }
            }
        }
        // one piece standing one square elsewhere (the hash of a sibling line handed over by mistake)
        for i in 0..64usize {
            if b.0[i] == 0 {
                continue;
            }
            for k in 0..4u8 {
                if let Some(j) = nb(i, k) {
                    if b.0[j] == 0 {
                        let mut v = b;
                        v.0[j] = v.0[i];
                        v.0[i] = 0;
                        self.variants += 1;
                        if scratch(&v, gold, step, status).ok() == Some(h) {
                            s.violate_game("C17", "reached_state_hash_equals_relocated_piece", t.rec, format!("after {} the engine's hash {:#018x} equals the from-scratch hash of the same state with the piece on {} standing on {} instead; board={}", code_text(t.code), h, sq_text(i), sq_text(j), b.compact()));
                        }
                    }
                }
            }
        }
        self.variants += 5;
        if scratch(&b, !gold, step, status).ok() == Some(h) {
            s.violate_game("C17", "reached_state_hash_equals_other_side", t.rec, format!("board={}", b.compact()));
        }
        for k in 0..4u8 {
            if k != step && scratch(&b, gold, k, status).ok() == Some(h) {
                s.violate_game("C17", "reached_state_hash_equals_other_step", t.rec, format!("step {} vs {} board={}", step, k, b.compact()));
            }
        }
        if status != PushPullState::None && scratch(&b, gold, step, PushPullState::None).ok() == Some(h) {
            s.violate_game("C17", "reached_state_hash_equals_no_status", t.rec, format!("status {:?} board={}", status, b.compact()));
        }
        // status variants built as full states in the reached state's own un-hashed context (earlier boards,
        // capture-this-turn flag, history, move number): the same pending square with every other piece type,
        // and a few other statuses
        let pend = decode_pend(status);
        let mut others: Vec<Pend> = vec![];
        match pend {
            Pend::Push(sq, ty) => others.extend((0..5u8).filter(|x| *x != ty).map(|x| Pend::Push(sq, x))),
            Pend::Pull(sq, ty) => others.extend((1..6u8).filter(|x| *x != ty).map(|x| Pend::Pull(sq, x))),
            Pend::None => {}
        }
        let sq_to = nb(code_sq(t.code), code_dir(t.code)).unwrap_or(0) as u8;
        for ty in 0..5u8 {
            others.push(Pend::Push(code_sq(t.code) as u8, ty));
            others.push(Pend::Pull(code_sq(t.code) as u8, ty + 1));
            others.push(Pend::Push(sq_to, ty));
        }
        others.retain(|p| *p != pend);
        let after = t.after;
        for p2 in others {
            self.variants += 1;
            let hv = guard("status variant in reached context", || {
                let pp = after.unwrap_play_phase();
                let pbs = after.piece_board();
                let z = Zobrist::from_piece_board(pbs, gold, step as usize);
                let z0 = Zobrist::from_piece_board(after.piece_board_for_step(0), gold, 0);
                let npp = PlayPhase::new(z0, pp.hash_history().clone(), pp.previous_piece_boards().to_vec(), encode_pend(p2), pp.piece_trapped_this_turn());
                GameState::new(gold, after.move_number(), Phase::PlayPhase(npp), piece_board_of(&b), z).transposition_hash()
            });
            if hv.ok() == Some(h) {
                s.violate_game("C17", "reached_state_hash_equals_other_status", t.rec, format!("after {} the engine's hash {:#018x} (status {:?}) equals the hash of the same state (same board, side, step, earlier boards, capture flag, history) built with status {:?}; board={}", code_text(t.code), h, status, encode_pend(p2), b.compact()));
            }
        }
    }
    fn finish(&mut self, s: &mut Sink) {
        s.add("reached_states_checked_against_local_variants", self.transitions);
        s.add("reached_state_variants_compared", self.variants);
        s.add("pairs_compared", self.variants);
        s.add("reached_states_right_after_a_capture", self.after_capture);
        s.add("copies_reseated_over_older_states", self.reseated);
    }
}

pub fn c17(cfg: &Cfg) -> i32 {
    let nb = cfg.n(30, 12_000);
    let sink = run_parallel(cfg, |w, sink| {
        let mut rng = Rng::new(cfg.seed, 0x1700 + w as u64);
        if w == 0 {
            c17_base(&MBoard::empty(), true, 0, Pend::None, "empty", sink);
            c17_base(&gen::opening_array(), true, 0, Pend::None, "opening_array", sink);
            c17_base(&gen::opening_array(), false, 2, Pend::Pull(27, 3), "opening_array_s2_pull", sink);
        }
        let mut k = w as u64;
        while k < nb {
            let (b, gold, _) = if k % 2 == 0 { gen::w1(&mut rng) } else { gen::w2(&mut rng) };
            let step = rng.below(4) as u8;
            let pend = *rng.pick(&all_statuses());
            let pend = if step == 0 { Pend::None } else { pend };
            c17_base(&b, gold, step, pend, &format!("random#{}:{}", k, b.compact()), sink);
            k += cfg.workers as u64;
        }
    });
    let mut sink = sink;
    {
        let mix = Mix { w1: (300, 4000), w2: (600, 8000), w3: (100, 1000), w7: (25, 200), ..Mix::default() };
        sink.merge(run_mix(cfg, &mix, &|| Box::new(C17Play::default())));
    }
    let mut rep = report("pairs_compared", "W11: for each base state (empty board, opening array, random legal positions with random side / step / status) the finite space of one-feature changes is enumerated completely: all 13 contents of each of the 64 squares and each of the 12 piece kinds on every square empty in the base (in the base's own context and in a random side/step/status context per family), and side, step and status each varied in every combination of the other two (2 564 + 1 282 + 8 families per base); states are built with GameState::new / PlayPhase::new and all hashes within a family must be pairwise distinct. Second part, on states reached by play (W1/W2/W3/W7 games): the hash the engine carries after every step must differ from the from-scratch hash of every variant that differs in the content of the source, destination or a trap square, in the side, the step or the status (a captured piece left in the hash would make 'trap empty' collide with 'piece still there'). distinct_nontrivial = distinct hash values seen.", vec![floor("bases", 30, 8000), floor("pairs_status", 8 * 205_120 * 30, 8 * 205_120 * 8000), floor("pairs_square_content", 2 * 64 * 78 * 30, 2 * 64 * 78 * 8000), floor("pairs_step", 6 * 1282 * 30, 6 * 1282 * 8000), floor("pairs_side", 2564 * 30, 2564 * 8000), floor("reached_states_checked_against_local_variants", 400_000, 5_000_000), floor("reached_states_right_after_a_capture", 20_000, 200_000)], &["states are built with the public constructors, as the property says"]);
    rep.exhaustive = Some(true);
    rep.extra.insert("exhaustive_scope".into(), json!("per base state, the space of one-feature changes named in the property is enumerated completely; the bases themselves are sampled"));
    conclude(cfg, sink, rep)
}

// ---------------------------------------------------------------------------------------------
pub fn c19(cfg: &Cfg) -> i32 {
    let mix = Mix { w1: (400, 12000), w2: (400, 12000), w3: (300, 8000), w5: (150, 4000), w5b: (50, 1000), w5c: (3, 60), w7: (60, 1500), tree_per_mille: 3, sweep2: true, sweep3: (32, 2), text_per_mille: 50, ..Mix::default() };
    let sink = run_mix(cfg, &mix, &|| Box::new(C19::default()));
    let mut floors = vec![floor("play_states_judged", 500_000, 5_000_000), floor("setup_states_judged", 20_000, 200_000), floor("guarded_engine_calls", 10_000_000, 100_000_000), floor("rabbit_steps", 10_000, 100_000), floor("setup_states_with_one_square_left", 1000, 10_000)];
    for t in ["r", "c", "d", "h", "m"] {
        let name: &'static str = Box::leak(format!("states_pending_push_of_{}", t).into_boxed_str());
        floors.push(floor(name, 300, 3000));
    }
    for t in ["c", "d", "h", "m", "e"] {
        let name: &'static str = Box::leak(format!("states_pending_pull_by_{}", t).into_boxed_str());
        floors.push(floor(name, 1000, 10_000));
    }
    conclude(cfg, sink, report("guarded_engine_calls", "every setup and play state of W1/W2/W3/W5/W7 games, sampled full turn trees and the W6 sweeps: each listed public query (action lists, result, can_pass, has_move, hash, printing, std Hash/Eq/Clone/Debug, earlier step boards, PlayPhase getters, PieceBoardState accessors incl. piece_type_at_square for all 64 squares, capture preview of every listed action, take_action of every offered action and two queries on each successor) runs under catch_unwind with a panic hook that records the site; built with overflow checks and debug assertions. distinct_nontrivial = distinct states with a pending push or pull (the states whose guards the explicit panic sites depend on).", floors, &["step-indexed queries are only made in the play phase and placement_bit only in the setup phase, as the statement lists"]))
}
