//! Workload families as runnable units (DESIGN.md §5): games, sweeps, cyclers.

use crate::driver::*;
use crate::gen;
use crate::model::*;
use crate::record::*;
use crate::rng::Rng;
use crate::sink::Sink;

#[derive(Clone, Copy, PartialEq, Eq, Debug)]
pub enum Family {
    W1,
    W2,
    W3,
    W5,
    W7,
}
impl Family {
    pub fn name(&self) -> &'static str {
        match self {
            Family::W1 => "W1-random",
            Family::W2 => "W2-cluster",
            Family::W3 => "W3-endgame",
            Family::W5 => "W5-cycler",
            Family::W7 => "W7-setup",
        }
    }
}

pub fn policy_for(fam: Family, rng: &mut Rng) -> Policy {
    match fam {
        Family::W3 => {
            if rng.chance(3, 4) {
                Policy::Reverser
            } else {
                Policy::Passer
            }
        }
        _ => match rng.below(6) {
            0 => Policy::Uniform,
            1 => Policy::PushLover,
            2 => Policy::PullLover,
            3 => Policy::Passer,
            4 => Policy::CaptureSeeker,
            _ => Policy::Uniform,
        },
    }
}

/// Play `games` games of a family on this worker.
#[allow(clippy::too_many_arguments)]
pub fn play_family(fam: Family, games: u64, seed: u64, worker: usize, text_start_per_mille: u32, opts: &PlayOpts, mon: &mut dyn Monitor, sink: &mut Sink) {
    let mut rng = Rng::new(seed, (worker as u64) << 8 | fam as u64);
    for idx in 0..games {
        let index = (worker as u64) << 32 | idx;
        match fam {
            Family::W7 => {
                let mut rec = GameRecord::new(fam.name(), seed, index, Start::Setup { placements: vec![] });
                let pol = policy_for(Family::W1, &mut rng);
                play(&mut rec, pol, opts, &mut rng, mon, sink);
            }
            Family::W5 => {
                let (b, gold, mv) = gen::w3(&mut rng);
                if let Some(script) = cycler_script(&b, gold, &mut rng) {
                    let start = if rng.below(1000) < text_start_per_mille as usize { Start::Text { board: b, gold, moveno: mv } } else { Start::Inject { board: b, gold, moveno: mv } };
                    let mut rec = GameRecord::new(fam.name(), seed, index, start);
                    sink.count("cycler_scripts_built");
                    play(&mut rec, Policy::Script(script), opts, &mut rng, mon, sink);
                } else {
                    sink.count("cycler_script_construction_failed");
                }
            }
            _ => {
                let (b, gold, mv) = match fam {
                    Family::W1 => gen::w1(&mut rng),
                    Family::W2 => gen::w2(&mut rng),
                    _ => gen::w3(&mut rng),
                };
                debug_assert!(b.is_legal_position());
                let start = if rng.below(1000) < text_start_per_mille as usize { Start::Text { board: b, gold, moveno: mv } } else { Start::Inject { board: b, gold, moveno: mv } };
                let mut rec = GameRecord::new(fam.name(), seed, index, start);
                let pol = policy_for(fam, &mut rng);
                play(&mut rec, pol, opts, &mut rng, mon, sink);
            }
        }
    }
}

/// W5: build (with the model only) a cycle G-out, S-out, G-back, S-back of capture-free own-piece
/// steps, repeated three times plus one turn, so that third repetitions are attempted at both
/// kinds of turn end.
pub fn cycler_script(b0: &MBoard, gold0: bool, rng: &mut Rng) -> Option<Vec<Code>> {
    for _ in 0..30 {
        let mut b = *b0;
        let mut gold = gold0;
        let mut outs: Vec<Vec<(usize, u8)>> = vec![];
        let mut cycle: Vec<Code> = vec![];
        let mut ok = true;
        // two out-turns
        for _ in 0..2 {
            let k = 1 + rng.below(4);
            let mut steps: Vec<(usize, u8)> = vec![];
            let mut pend = Pend::None;
            let start = b;
            for st in 0..k {
                let legal = b.legal(gold, st as u8, pend);
                let cands: Vec<Code> = legal
                    .iter()
                    .filter(|c| is_step(*c))
                    .filter(|c| {
                        let cl = b.0[code_sq(*c)];
                        cl != 0 && is_gold(cl) == gold && strength(cl) != 0 && b.apply(gold, pend, code_sq(*c), code_dir(*c)).map_or(false, |a| a.captured.is_empty())
                    })
                    .collect();
                if cands.is_empty() {
                    break;
                }
                let c = cands[rng.below(cands.len())];
                let a = b.apply(gold, pend, code_sq(c), code_dir(c)).unwrap();
                b = a.board;
                pend = a.pend;
                steps.push((code_sq(c), code_dir(c)));
                cycle.push(c);
            }
            if steps.is_empty() || b == start {
                ok = false;
                break;
            }
            if steps.len() < 4 {
                cycle.push(PASS);
            }
            outs.push(steps);
            gold = !gold;
        }
        if !ok {
            continue;
        }
        // two back-turns: reverse the steps in reverse order
        for t in 0..2 {
            let steps = &outs[t];
            let mut pend = Pend::None;
            for (n, (sq, d)) in steps.iter().rev().enumerate() {
                let from = nb(*sq, *d).unwrap();
                let c = step_code(from, opp(*d));
                if !b.legal(gold, n as u8, pend).contains(c) {
                    ok = false;
                    break;
                }
                let a = b.apply(gold, pend, from, opp(*d)).unwrap();
                if !a.captured.is_empty() {
                    ok = false;
                    break;
                }
                b = a.board;
                pend = a.pend;
                cycle.push(c);
            }
            if !ok {
                break;
            }
            if steps.len() < 4 {
                cycle.push(PASS);
            }
            gold = !gold;
        }
        if !ok || b != *b0 {
            continue;
        }
        let mut script = vec![];
        for _ in 0..3 {
            script.extend_from_slice(&cycle);
        }
        return Some(script);
    }
    None
}

/// W6: bounded-exhaustive sweeps. Calls `visit` for every legal position of the scope owned by
/// this shard. Kinds: the given piece strengths in both colours.
pub fn sweep_positions(npieces: usize, strengths: &[u8], shard: usize, nshards: usize, sample_mod: u64, mut visit: impl FnMut(MBoard, bool)) {
    let kinds: Vec<u8> = strengths.iter().flat_map(|s| [cell(*s, true), cell(*s, false)]).collect();
    let dist = |a: usize, b: usize| ((a % 8) as i32 - (b % 8) as i32).abs() + ((a / 8) as i32 - (b / 8) as i32).abs();
    let mut n: u64 = 0;
    for a in 0..64usize {
        for (ia, ka) in kinds.iter().enumerate() {
            if (a * kinds.len() + ia) % nshards != shard {
                continue;
            }
            for b in 0..64usize {
                if b == a {
                    continue;
                }
                if npieces >= 3 && dist(a, b) > 3 {
                    continue;
                }
                for kb in &kinds {
                    let thirds: Vec<usize> = if npieces >= 3 { (0..64).filter(|c| *c != a && *c != b && *c > b && dist(a, *c) <= 3).collect() } else { vec![64] };
                    for c in thirds {
                        let kcs: &[u8] = if c == 64 { &[0] } else { &kinds };
                        for kc in kcs {
                            n += 1;
                            if sample_mod > 1 && n % sample_mod != 0 {
                                continue;
                            }
                            let mut rb = MBoard::empty();
                            rb.0[a] = *ka;
                            rb.0[b] = *kb;
                            if c != 64 {
                                rb.0[c] = *kc;
                            }
                            if !rb.is_legal_position() {
                                continue;
                            }
                            visit(rb, true);
                            visit(rb, false);
                        }
                    }
                }
            }
        }
    }
}

/// Run the sweep through the driver (turn tree to `depth`).
#[allow(clippy::too_many_arguments)]
pub fn sweep(npieces: usize, strengths: &[u8], depth: u32, shard: usize, nshards: usize, sample_mod: u64, seed: u64, mon: &mut dyn Monitor, sink: &mut Sink) {
    let mut rng = Rng::new(seed, 0xEE00 + shard as u64);
    let mut idx = 0u64;
    let name = format!("W6-sweep{}", npieces);
    let mut roots = 0u64;
    sweep_positions(npieces, strengths, shard, nshards, sample_mod, |b, gold| {
        idx += 1;
        roots += 1;
        let mut rec = GameRecord::new(&name, seed, (shard as u64) << 40 | idx, Start::Inject { board: b, gold, moveno: 2 });
        sweep_root(&mut rec, depth, &mut rng, mon, sink);
    });
    sink.add(&format!("sweep{}_roots", npieces), roots);
}
