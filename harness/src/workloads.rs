//! Workload families as runnable units (DESIGN.md §5): games, sweeps, cyclers.

use crate::driver::*;
use crate::gen;
use crate::model::*;
use crate::record::*;
use crate::rng::Rng;
use crate::sink::Sink;

#[derive(Clone, Copy, PartialEq, Eq, Debug)]
pub enum Family {
    W1,
    W2,
    W3,
    W5,
    W7,
}
impl Family {
    pub fn name(&self) -> &'static str {
        match self {
            Family::W1 => "W1-random",
            Family::W2 => "W2-cluster",
            Family::W3 => "W3-endgame",
            Family::W5 => "W5-cycler",
            Family::W7 => "W7-setup",
        }
    }
}

pub fn policy_for(fam: Family, rng: &mut Rng) -> Policy {
    match fam {
        Family::W3 => {
            if rng.chance(3, 4) {
                Policy::Reverser
            } else {
                Policy::Passer
            }
        }
        _ => match rng.below(6) {
            0 => Policy::Uniform,
            1 => Policy::PushLover,
            2 => Policy::PullLover,
            3 => Policy::Passer,
            4 => Policy::CaptureSeeker,
            _ => {
                if rng.chance(1, 2) {
                    Policy::Reverser
                } else {
                    Policy::Uniform
                }
            }
        },
    }
}

/// Play `games` games of a family on this worker.
#[allow(clippy::too_many_arguments)]
pub fn play_family(fam: Family, games: u64, seed: u64, worker: usize, text_start_per_mille: u32, opts: &PlayOpts, mon: &mut dyn Monitor, sink: &mut Sink) {
    let mut rng = Rng::new(seed, (worker as u64) << 8 | fam as u64);
    for idx in 0..games {
        let index = (worker as u64) << 32 | idx;
        match fam {
            Family::W7 => {
                let mut rec = GameRecord::new(fam.name(), seed, index, Start::Setup { placements: vec![] });
                let pol = policy_for(Family::W1, &mut rng);
                play(&mut rec, pol, opts, &mut rng, mon, sink);
            }
            Family::W5 => {
                let (b, gold, mv) = gen::w3(&mut rng);
                if let Some(script) = cycler_script(&b, gold, &mut rng) {
                    let start = if rng.below(1000) < text_start_per_mille as usize { Start::Text { board: b, gold, moveno: mv } } else { Start::Inject { board: b, gold, moveno: mv } };
                    let mut rec = GameRecord::new(fam.name(), seed, index, start);
                    sink.count("cycler_scripts_built");
                    play(&mut rec, Policy::Script(script), opts, &mut rng, mon, sink);
                } else {
                    sink.count("cycler_script_construction_failed");
                }
            }
            _ => {
                let (b, gold, mv) = match fam {
                    Family::W1 => gen::w1(&mut rng),
                    Family::W2 => gen::w2(&mut rng),
                    _ => gen::w3(&mut rng),
                };
                debug_assert!(b.is_legal_position());
                let start = if rng.below(1000) < text_start_per_mille as usize { Start::Text { board: b, gold, moveno: mv } } else { Start::Inject { board: b, gold, moveno: mv } };
                let mut rec = GameRecord::new(fam.name(), seed, index, start);
                let pol = policy_for(fam, &mut rng);
                play(&mut rec, pol, opts, &mut rng, mon, sink);
            }
        }
    }
}

/// W4c as a game family: barely mobile movers (immobilised, or with nothing but pushes), one turn each. Consecutive
/// games on a thread put an only-pushes position right before an immobilised one and the other way round.
pub fn play_barely_mobile(games: u64, seed: u64, worker: usize, mon: &mut dyn Monitor, sink: &mut Sink) {
    let mut rng = Rng::new(seed, 0x4C00 + worker as u64);
    let o1 = PlayOpts { max_turns: 1, max_actions: 5, ..PlayOpts::default() };
    for k in 0..games {
        if let Some((b, g, mv)) = gen::w4c(&mut rng) {
            let start = if rng.chance(1, 20) { Start::Text { board: b, gold: g, moveno: mv } } else { Start::Inject { board: b, gold: g, moveno: mv } };
            let mut rec = GameRecord::new("W4c-barely-mobile", seed, (worker as u64) << 32 | k, start);
            sink.count("barely_mobile_positions_played");
            play(&mut rec, Policy::Uniform, &o1, &mut rng, mon, sink);
        }
    }
}

/// W5: build (with the model only) a cycle G-out, S-out, G-back, S-back of capture-free own-piece
/// steps, repeated three times plus one turn, so that third repetitions are attempted at both
/// kinds of turn end.
pub fn cycler_script(b0: &MBoard, gold0: bool, rng: &mut Rng) -> Option<Vec<Code>> {
    for _ in 0..30 {
        let mut b = *b0;
        let mut gold = gold0;
        let mut outs: Vec<Vec<(usize, u8)>> = vec![];
        let mut cycle: Vec<Code> = vec![];
        let mut ok = true;
        // two out-turns
        for _ in 0..2 {
            let k = 1 + rng.below(4);
            let mut steps: Vec<(usize, u8)> = vec![];
            let mut pend = Pend::None;
            let start = b;
            for st in 0..k {
                let legal = b.legal(gold, st as u8, pend);
                let cands: Vec<Code> = legal
                    .iter()
                    .filter(|c| is_step(*c))
                    .filter(|c| {
                        let cl = b.0[code_sq(*c)];
                        cl != 0 && is_gold(cl) == gold && strength(cl) != 0 && b.apply(gold, pend, code_sq(*c), code_dir(*c)).map_or(false, |a| a.captured.is_empty())
                    })
                    .collect();
                if cands.is_empty() {
                    break;
                }
                let c = cands[rng.below(cands.len())];
                let a = b.apply(gold, pend, code_sq(c), code_dir(c)).unwrap();
                b = a.board;
                pend = a.pend;
                steps.push((code_sq(c), code_dir(c)));
                cycle.push(c);
            }
            if steps.is_empty() || b == start {
                ok = false;
                break;
            }
            if steps.len() < 4 {
                cycle.push(PASS);
            }
            outs.push(steps);
            gold = !gold;
        }
        if !ok {
            continue;
        }
        // two back-turns: reverse the steps in reverse order
        for t in 0..2 {
            let steps = &outs[t];
            let mut pend = Pend::None;
            for (n, (sq, d)) in steps.iter().rev().enumerate() {
                let from = nb(*sq, *d).unwrap();
                let c = step_code(from, opp(*d));
                if !b.legal(gold, n as u8, pend).contains(c) {
                    ok = false;
                    break;
                }
                let a = b.apply(gold, pend, from, opp(*d)).unwrap();
                if !a.captured.is_empty() {
                    ok = false;
                    break;
                }
                b = a.board;
                pend = a.pend;
                cycle.push(c);
            }
            if !ok {
                break;
            }
            if steps.len() < 4 {
                cycle.push(PASS);
            }
            gold = !gold;
        }
        if !ok || b != *b0 {
            continue;
        }
        let mut script = vec![];
        for _ in 0..3 {
            script.extend_from_slice(&cycle);
        }
        return Some(script);
    }
    None
}

/// W6: bounded-exhaustive sweeps. Calls `visit` for every legal position of the scope owned by
/// this shard. Kinds: the given piece strengths in both colours.
pub fn sweep_positions(npieces: usize, strengths: &[u8], shard: usize, nshards: usize, sample_mod: u64, mut visit: impl FnMut(MBoard, bool)) {
    let kinds: Vec<u8> = strengths.iter().flat_map(|s| [cell(*s, true), cell(*s, false)]).collect();
    let dist = |a: usize, b: usize| ((a % 8) as i32 - (b % 8) as i32).abs() + ((a / 8) as i32 - (b / 8) as i32).abs();
    let mut n: u64 = 0;
    for a in 0..64usize {
        for (ia, ka) in kinds.iter().enumerate() {
            if (a * kinds.len() + ia) % nshards != shard {
                continue;
            }
            for b in 0..64usize {
                if b == a {
                    continue;
                }
                if npieces >= 3 && dist(a, b) > 3 {
                    continue;
                }
                for kb in &kinds {
                    let thirds: Vec<usize> = if npieces >= 3 { (0..64).filter(|c| *c != a && *c != b && *c > b && dist(a, *c) <= 3).collect() } else { vec![64] };
                    for c in thirds {
                        let kcs: &[u8] = if c == 64 { &[0] } else { &kinds };
                        for kc in kcs {
                            n += 1;
                            if sample_mod > 1 && n % sample_mod != 0 {
                                continue;
                            }
                            let mut rb = MBoard::empty();
                            rb.0[a] = *ka;
                            rb.0[b] = *kb;
                            if c != 64 {
                                rb.0[c] = *kc;
                            }
                            if !rb.is_legal_position() {
                                continue;
                            }
                            visit(rb, true);
                            visit(rb, false);
                        }
                    }
                }
            }
        }
    }
}

/// Run the sweep through the driver (turn tree to `depth`).
#[allow(clippy::too_many_arguments)]
pub fn sweep(npieces: usize, strengths: &[u8], depth: u32, shard: usize, nshards: usize, sample_mod: u64, seed: u64, mon: &mut dyn Monitor, sink: &mut Sink) {
    let mut rng = Rng::new(seed, 0xEE00 + shard as u64);
    let mut idx = 0u64;
    let name = format!("W6-sweep{}", npieces);
    let mut roots = 0u64;
    sweep_positions(npieces, strengths, shard, nshards, sample_mod, |b, gold| {
        idx += 1;
        roots += 1;
        let mut rec = GameRecord::new(&name, seed, (shard as u64) << 40 | idx, Start::Inject { board: b, gold, moveno: 2 });
        sweep_root(&mut rec, depth, &mut rng, mon, sink);
    });
    sink.add(&format!("sweep{}_roots", npieces), roots);
}

/// W5b "saturated neighbourhood" (the dead-end builder of DESIGN.md §5 W5, generalised).
/// Builds, with the model only, a game in which one mobile piece X of the first mover walks so
/// that the positions "X on s" and "X on each empty neighbour of s" (other side to move) have
/// each occurred twice; in the final turn X steps t -> u -> prev -> s, so that at step 3 the pass
/// and every step of X are withheld by the repetition rules. With a weaker enemy piece next to
/// `prev` the only offered action is the pull; without it the state is a mid-turn dead end.
/// Returns (start board, side to move first, script, kind).
pub static SAT_FAIL: [std::sync::atomic::AtomicU64; 40] = [const { std::sync::atomic::AtomicU64::new(0) }; 40];
pub fn saturated_script(rng: &mut Rng) -> Option<(MBoard, bool, Vec<Code>, &'static str)> {
    let dist = |a: usize, b: usize| ((a % 8) as i32 - (b % 8) as i32).abs() + ((a / 8) as i32 - (b / 8) as i32).abs();
    let near_trap = |i: usize| TRAPS.iter().any(|t| dist(*t, i) <= 1);
    for _ in 0..60 {
        let gold = rng.chance(1, 2); // colour of X's side
        let mirror = rng.chance(1, 2);
        // geometry in "gold, unmirrored" coordinates; transformed at the end
        // s in rows 3..4 (ranks 5/4), columns 3..6, all visited squares away from traps
        let s = [25usize, 26, 27, 28, 29, 30, 33, 34, 35, 36, 37, 38][rng.below(12)];
        let dirs: Vec<u8> = (0..4u8).collect();
        let d = dirs[rng.below(4)];
        let prev = match nb(s, opp(d)) {
            Some(x) => x,
            None => { SAT_FAIL[11].fetch_add(1, std::sync::atomic::Ordering::Relaxed); continue }
        };
        let u = match nb(prev, opp(d)) {
            Some(x) => x,
            None => { SAT_FAIL[12].fetch_add(1, std::sync::atomic::Ordering::Relaxed); continue }
        };
        // t adjacent to u, not prev
        let tc: Vec<usize> = (0..4u8).filter_map(|k| nb(u, k)).filter(|x| *x != prev).collect();
        if tc.is_empty() {
            { SAT_FAIL[1].fetch_add(1, std::sync::atomic::Ordering::Relaxed); continue; }
        }
        let t = tc[rng.below(tc.len())];
        let ns: Vec<usize> = (0..4u8).filter_map(|k| nb(s, k)).collect();
        let mut walk_squares: Vec<usize> = vec![s, prev, u, t];
        walk_squares.extend(ns.iter());
        // optional enemy piece next to prev (beside the walk line)
        let xs = 1 + rng.below(5) as u8; // X: cat..elephant
        let with_pull = rng.chance(2, 3);
        let pc: Vec<usize> = (0..4u8).filter_map(|k| nb(prev, k)).filter(|q| !walk_squares.contains(q) && !TRAPS.contains(q) && (1..7).contains(&(q / 8))).collect();
        if with_pull && pc.is_empty() {
            { SAT_FAIL[2].fetch_add(1, std::sync::atomic::Ordering::Relaxed); continue; }
        }
        let psq = if with_pull { pc[rng.below(pc.len())] } else { 64 };
        // wander squares for the off-beat turns: distance 2..3 from s (so every leg is <= 4 steps)
        let ws: Vec<usize> = (8..56).filter(|w| (dist(*w, s) == 2 || dist(*w, s) == 3) && !walk_squares.contains(w) && !TRAPS.contains(w) && *w != psq).collect();
        if ws.len() < 7 {
            { SAT_FAIL[3].fetch_add(1, std::sync::atomic::Ordering::Relaxed); continue; }
        }
        let mut all: Vec<usize> = walk_squares.clone();
        all.extend(ws.iter());
        if all.iter().any(|q| near_trap(*q)) && rng.chance(9, 10) {
            // keep some scripts that brush traps out (captures would abort the script anyway)
            if all.iter().any(|q| TRAPS.contains(q)) {
                { SAT_FAIL[4].fetch_add(1, std::sync::atomic::Ordering::Relaxed); continue; }
            }
        }
        let mut b = MBoard::empty();
        // the mover's rabbit is immobile (R on a1 frozen by a cat/dog on a2) so that X is its only mobile piece; the other side's rabbit on h8 is simply never moved
        b.0[56] = cell(0, true);
        b.0[48] = cell(1 + rng.below(2) as u8, false);
        b.0[7] = cell(0, false);
        // shuffle piece z of the other side: far from the walk, on the h/a file
        let zcands: Vec<(usize, usize)> = [(31usize, 39usize), (23, 31), (39, 47), (24, 32), (32, 40), (16, 24)].iter().copied().filter(|(a, c)| all.iter().all(|q| dist(*q, *a) >= 2 && dist(*q, *c) >= 2)).collect();
        if zcands.is_empty() {
            { SAT_FAIL[5].fetch_add(1, std::sync::atomic::Ordering::Relaxed); continue; }
        }
        let (za, zb) = zcands[rng.below(zcands.len())];
        b.0[za] = cell(2 + rng.below(3) as u8, false);
        // third kind: a dead end although X stands next to a weaker enemy piece that has room to be
        // pushed (push starts are not allowed on the last step, so the state is still a dead end)
        let with_pushable = !with_pull && rng.chance(1, 2);
        if with_pushable {
            let qc: Vec<usize> = ns.iter().copied().filter(|q| *q != prev && !TRAPS.contains(q) && (1..7).contains(&(q / 8))).collect();
            if qc.is_empty() {
                { SAT_FAIL[13].fetch_add(1, std::sync::atomic::Ordering::Relaxed); continue; }
            }
            let q = qc[rng.below(qc.len())];
            if b.0[q] != 0 || (0..4u8).filter_map(|k| nb(q, k)).any(|m| m == prev) {
                { SAT_FAIL[14].fetch_add(1, std::sync::atomic::Ordering::Relaxed); continue; }
            }
            b.0[q] = cell(rng.below(xs as usize) as u8, false);
        }
        // enemy piece next to prev, weaker than X
        if with_pull {
            if b.0[psq] != 0 {
                { SAT_FAIL[6].fetch_add(1, std::sync::atomic::Ordering::Relaxed); continue; }
            }
            b.0[psq] = cell(rng.below(xs as usize) as u8, false);
        }
        // X starts on a wander square
        let x0 = ws[0];
        if b.0[x0] != 0 {
            { SAT_FAIL[7].fetch_add(1, std::sync::atomic::Ordering::Relaxed); continue; }
        }
        b.0[x0] = cell(xs, true);
        if !b.is_legal_position() {
            { SAT_FAIL[8].fetch_add(1, std::sync::atomic::Ordering::Relaxed); continue; }
        }
        // destinations: on-beat turns visit s and its neighbours twice each
        let mut targets: Vec<usize> = vec![s];
        targets.extend(ns.iter().filter(|q| b.0[**q] == 0));
        let mut plan: Vec<usize> = vec![];
        let mut wi = 1usize;
        for rep in 0..2 {
            let mut tt = targets.clone();
            if rep == 1 {
                rng.shuffle(&mut tt);
                // finish on `prev`, two steps away from t
                if let Some(k) = tt.iter().position(|q| *q == prev) {
                    let l = tt.len() - 1;
                    tt.swap(k, l);
                }
            }
            for q in tt {
                plan.push(q);
                // off-beat destination: cycle through the wander squares (each at most twice)
                plan.push(ws[1 + wi % (ws.len() - 1)]);
                wi += 1;
            }
        }
        // last off-beat destination must be t
        let n = plan.len();
        plan[n - 1] = t;
        // simulate with the model: X walks (shortest path, <= 3 steps, then pass), z alternates
        let mut board = b;
        let mut script: Vec<Code> = vec![];
        let mut hist: std::collections::HashMap<(MBoard, bool), u32> = std::collections::HashMap::new();
        hist.insert((board, true), 1);
        let mut xpos = x0;
        let mut zpos = za;
        let mut ok = true;
        let path = |board: &MBoard, from: usize, to: usize| -> Option<Vec<(usize, u8)>> {
            // BFS over empty squares, at most 4 steps (a 4-step leg ends the turn by itself)
            let mut prevm: std::collections::HashMap<usize, (usize, u8)> = std::collections::HashMap::new();
            let mut frontier = vec![from];
            for _ in 0..4 {
                let mut next = vec![];
                for f in frontier {
                    for k in 0..4u8 {
                        if let Some(n2) = nb(f, k) {
                            if n2 != from && board.0[n2] == 0 && !TRAPS.contains(&n2) && !prevm.contains_key(&n2) {
                                prevm.insert(n2, (f, k));
                                next.push(n2);
                            }
                        }
                    }
                }
                frontier = next;
            }
            if !prevm.contains_key(&to) {
                return None;
            }
            let mut out = vec![];
            let mut cur = to;
            while cur != from {
                let (p, k) = prevm[&cur];
                out.push((p, k));
                cur = p;
            }
            out.reverse();
            Some(out)
        };
        for dest in plan.iter() {
            if *dest == xpos {
                { SAT_FAIL[20].fetch_add(1, std::sync::atomic::Ordering::Relaxed); ok = false; }
                break;
            }
            let steps = match path(&board, xpos, *dest) {
                Some(p) => p,
                None => {
                    { SAT_FAIL[21].fetch_add(1, std::sync::atomic::Ordering::Relaxed); ok = false; }
                    break;
                }
            };
            let mut pend = Pend::None;
            let start = board;
            for (k, (sq, dd)) in steps.iter().enumerate() {
                if !board.legal(true, k as u8, pend).contains(step_code(*sq, *dd)) {
                    { SAT_FAIL[22].fetch_add(1, std::sync::atomic::Ordering::Relaxed); ok = false; }
                    break;
                }
                let a = board.apply(true, pend, *sq, *dd).unwrap();
                if !a.captured.is_empty() {
                    { SAT_FAIL[23].fetch_add(1, std::sync::atomic::Ordering::Relaxed); ok = false; }
                    break;
                }
                board = a.board;
                pend = a.pend;
                script.push(step_code(*sq, *dd));
            }
            if !ok || board == start {
                { SAT_FAIL[24].fetch_add(1, std::sync::atomic::Ordering::Relaxed); ok = false; }
                break;
            }
            let c = hist.entry((board, false)).or_insert(0);
            if *c >= 2 {
                { SAT_FAIL[25].fetch_add(1, std::sync::atomic::Ordering::Relaxed); ok = false; }
                break;
            }
            *c += 1;
            if steps.len() < 4 {
                script.push(PASS);
            }
            xpos = *dest;
            // other side: z alternates
            let (zf, zt) = if zpos == za { (za, zb) } else { (zb, za) };
            let dz = (0..4u8).find(|k| nb(zf, *k) == Some(zt)).unwrap();
            if !board.legal(false, 0, Pend::None).contains(step_code(zf, dz)) {
                { SAT_FAIL[26].fetch_add(1, std::sync::atomic::Ordering::Relaxed); ok = false; }
                break;
            }
            let a = board.apply(false, Pend::None, zf, dz).unwrap();
            if !a.captured.is_empty() {
                { SAT_FAIL[27].fetch_add(1, std::sync::atomic::Ordering::Relaxed); ok = false; }
                break;
            }
            board = a.board;
            zpos = zt;
            let c = hist.entry((board, true)).or_insert(0);
            if *c >= 2 {
                { SAT_FAIL[28].fetch_add(1, std::sync::atomic::Ordering::Relaxed); ok = false; }
                break;
            }
            *c += 1;
            script.push(step_code(zf, dz));
            script.push(PASS);
        }
        if !ok || zpos != za || xpos != t {
            { SAT_FAIL[9].fetch_add(1, std::sync::atomic::Ordering::Relaxed); continue; }
        }
        // the final turn: t -> u -> prev -> s
        let mut pend = Pend::None;
        let mut cur = t;
        for (k, nx) in [u, prev, s].iter().enumerate() {
            let dd = match (0..4u8).find(|q| nb(cur, *q) == Some(*nx)) {
                Some(x) => x,
                None => {
                    { SAT_FAIL[29].fetch_add(1, std::sync::atomic::Ordering::Relaxed); ok = false; }
                    break;
                }
            };
            if !board.legal(true, k as u8, pend).contains(step_code(cur, dd)) {
                { SAT_FAIL[30].fetch_add(1, std::sync::atomic::Ordering::Relaxed); ok = false; }
                break;
            }
            let a = board.apply(true, pend, cur, dd).unwrap();
            if !a.captured.is_empty() {
                { SAT_FAIL[31].fetch_add(1, std::sync::atomic::Ordering::Relaxed); ok = false; }
                break;
            }
            board = a.board;
            pend = a.pend;
            script.push(step_code(cur, dd));
            cur = *nx;
        }
        if !ok {
            { SAT_FAIL[10].fetch_add(1, std::sync::atomic::Ordering::Relaxed); continue; }
        }
        // transform to the chosen colour / mirror
        let flip = !gold;
        let tb = b.transform(mirror, flip);
        let tscript: Vec<Code> = script.iter().map(|c| map_code(*c, mirror, flip)).collect();
        return Some((tb, gold, tscript, if with_pull { "only_pull_left" } else if with_pushable { "dead_end_beside_pushable_enemy" } else { "dead_end" }));
    }
    None
}

/// W5b kind "frozen_dead_end": a lone mobile piece X walks three steps up to a stronger enemy piece Y and
/// is frozen there; Y steps away, X retreats, Y comes back, X walks up again (second occurrence); after a
/// second, different retreat X arrives for the third time with exactly three steps: at step 3 X is
/// frozen, every other piece of its side is frozen too, and the pass is withheld (third occurrence) -
/// the action lists are empty BEFORE any repetition filter runs. Returns (board, first mover, script, kind).
pub fn frozen_dead_end_script(rng: &mut Rng) -> Option<(MBoard, bool, Vec<Code>, &'static str)> {
    let adj = |a: usize, b: usize| (0..4u8).any(|k| nb(a, k) == Some(b));
    for _ in 0..80 {
        let gold = rng.chance(1, 2);
        let mirror = rng.chance(1, 2);
        // canonical coordinates: X is gold; f in rows 2..=5, columns 2..=6
        let f = (2 + rng.below(4)) * 8 + 2 + rng.below(5);
        let d1 = rng.below(4) as u8;
        let dy = rng.below(4) as u8;
        let d2 = rng.below(4) as u8;
        let d3 = rng.below(4) as u8;
        let de = rng.below(4) as u8;
        if dy == d1 || d2 == opp(d1) || d3 == opp(d2) {
            continue;
        }
        let (b1, e) = match (nb(f, d1), nb(f, dy)) {
            (Some(x), Some(y)) => (x, y),
            _ => continue,
        };
        let a = match nb(b1, d2) {
            Some(x) => x,
            None => continue,
        };
        let c = match nb(a, d3) {
            Some(x) => x,
            None => continue,
        };
        let e2 = match nb(e, de) {
            Some(x) => x,
            None => continue,
        };
        let walk = [c, a, b1, f];
        let all = [c, a, b1, f, e, e2];
        let mut distinct = true;
        for i in 0..all.len() {
            for j in 0..i {
                distinct &= all[i] != all[j];
            }
        }
        if !distinct || all.iter().any(|q| TRAPS.contains(q)) {
            continue;
        }
        // Y freezes X only on f; away on e2 it touches nothing of the walk
        if [c, a, b1].iter().any(|q| adj(*q, e)) || walk.iter().any(|q| adj(*q, e2)) {
            continue;
        }
        // bystanders: a frozen gold rabbit in the corner a1 under a silver piece on a2, a silver rabbit on h8
        let (r, z, sr) = (56usize, 48usize, 7usize);
        if all.iter().any(|q| *q == r || *q == z || *q == sr || adj(*q, r) || adj(*q, z) || adj(*q, sr)) {
            continue;
        }
        let xs = 1 + rng.below(4) as u8; // c d h m
        let ys = xs + 1 + rng.below((5 - xs) as usize) as u8;
        let mut b = MBoard::empty();
        b.0[c] = cell(xs, true);
        b.0[e] = cell(ys, false);
        b.0[r] = cell(0, true);
        b.0[z] = cell(1 + rng.below(5) as u8, false);
        b.0[sr] = cell(0, false);
        let dir = |from: usize, to: usize| (0..4u8).find(|k| nb(from, *k) == Some(to));
        let mut script: Vec<Code> = vec![];
        let mut push_walk = |sqs: &[usize], script: &mut Vec<Code>| -> Option<()> {
            for w in sqs.windows(2) {
                script.push(step_code(w[0], dir(w[0], w[1])?));
            }
            script.push(PASS);
            Some(())
        };
        let ok = (|| -> Option<()> {
            push_walk(&[c, a, b1, f], &mut script)?; // first arrival
            push_walk(&[e, e2], &mut script)?;
            push_walk(&[f, b1, a, c], &mut script)?; // long retreat
            push_walk(&[e2, e], &mut script)?;
            push_walk(&[c, a, b1, f], &mut script)?; // second arrival
            push_walk(&[e, e2], &mut script)?;
            push_walk(&[f, b1], &mut script)?; // short retreat
            push_walk(&[e2, e], &mut script)?;
            push_walk(&[b1, a, b1, f], &mut script)?; // third arrival, exactly three steps
            Some(())
        })();
        if ok.is_none() {
            continue;
        }
        script.pop(); // the final pass is the one that must be withheld
        // validate against the model's rule-only legal sets
        let mut cur = b;
        let mut g = true;
        let mut st = 0u8;
        let mut pend = Pend::None;
        let mut valid = true;
        for code in &script {
            if *code == PASS {
                if st == 0 {
                    valid = false;
                    break;
                }
                g = !g;
                st = 0;
                pend = Pend::None;
                continue;
            }
            if !cur.legal(g, st, pend).contains(*code) {
                valid = false;
                break;
            }
            match cur.apply(g, pend, code_sq(*code), code_dir(*code)) {
                Some(ap) if ap.captured.is_empty() => {
                    cur = ap.board;
                    pend = ap.pend;
                    st += 1;
                }
                _ => {
                    valid = false;
                    break;
                }
            }
        }
        // at the end: step 3, nothing legal by the rules alone except the pass
        if !valid || st != 3 || cur.legal(g, st, pend).iter().any(|c| c != PASS) {
            continue;
        }
        let flip = !gold;
        let tb = b.transform(mirror, flip);
        let tscript: Vec<Code> = script.iter().map(|c| map_code(*c, mirror, flip)).collect();
        return Some((tb, gold, tscript, "frozen_dead_end"));
    }
    None
}

pub fn play_saturated(games: u64, seed: u64, worker: usize, opts: &PlayOpts, mon: &mut dyn Monitor, sink: &mut Sink) {
    let mut rng = Rng::new(seed, (worker as u64) << 8 | 0x5B);
    for idx in 0..games {
        let r = if idx % 7 == 6 { frozen_dead_end_script(&mut rng) } else if idx % 3 == 2 { saturated_script2(&mut rng, (idx / 3) as usize) } else { saturated_script(&mut rng) };
        match r {
            Some((b, gold, script, kind)) => {
                sink.count(&format!("saturated_scripts_{}", kind));
                let start = if rng.chance(1, 10) { Start::Text { board: b, gold, moveno: 2 + rng.below(50) as u64 } } else { Start::Inject { board: b, gold, moveno: 2 + rng.below(50) as u64 } };
                let mut rec = GameRecord::new("W5b-saturated", seed, (worker as u64) << 32 | idx, start);
                play(&mut rec, Policy::Script(script), opts, &mut rng, mon, sink);
            }
            None => sink.count("saturated_script_construction_failed"),
        }
    }
}

#[cfg(test)]
mod tests {
    use super::*;
    #[test]
    fn saturated_kinds() {
        let mut rng = Rng::new(1, 1);
        let mut k = std::collections::BTreeMap::new();
        for _ in 0..300 {
            let r = saturated_script(&mut rng);
            *k.entry(r.map(|x| x.3).unwrap_or("none")).or_insert(0) += 1;
        }
        for i in 0..200 {
            let r = saturated_script2(&mut rng, i);
            *k.entry(r.map(|x| x.3).unwrap_or("none2")).or_insert(0) += 1;
        }
        println!("{:?}", k);
        println!("{:?}", SAT_FAIL.iter().map(|x| x.load(std::sync::atomic::Ordering::Relaxed)).collect::<Vec<_>>());
        assert!(k.get("only_pull_left").copied().unwrap_or(0) > 20 && k.get("dead_end").copied().unwrap_or(0) > 20);
    }
}

/// One random capture-free turn of `gold` built with the model: 1..=3 steps of own non-rabbit
/// pieces inside the side's own zone (gold ranks 1-3, silver ranks 6-8, so the armies never touch
/// and every turn can be undone later) followed by a pass. Returns the steps.
fn model_turn(b: &mut MBoard, gold: bool, rng: &mut Rng) -> Option<Vec<(usize, u8)>> {
    let start = *b;
    let in_zone = |i: usize| if gold { i / 8 >= 5 } else { i / 8 <= 2 };
    for _ in 0..8 {
        let mut cur = start;
        let k = 1 + rng.below(3);
        let mut steps = vec![];
        let mut pend = Pend::None;
        for st in 0..k {
            let legal = cur.legal(gold, st as u8, pend);
            let cands: Vec<Code> = legal
                .iter()
                .filter(|c| is_step(*c))
                .filter(|c| {
                    let cl = cur.0[code_sq(*c)];
                    cl != 0 && is_gold(cl) == gold && strength(cl) != 0 && cur.apply(gold, pend, code_sq(*c), code_dir(*c)).map_or(false, |a| a.captured.is_empty() && !TRAPS.contains(&a.to) && in_zone(a.to))
                })
                .collect();
            if cands.is_empty() {
                break;
            }
            let c = cands[rng.below(cands.len())];
            let a = cur.apply(gold, pend, code_sq(c), code_dir(c)).unwrap();
            cur = a.board;
            pend = a.pend;
            steps.push((code_sq(c), code_dir(c)));
        }
        if !steps.is_empty() && cur != start {
            *b = cur;
            return Some(steps);
        }
    }
    None
}

fn undo_turn(b: &mut MBoard, gold: bool, steps: &[(usize, u8)], script: &mut Vec<Code>) -> Option<()> {
    let mut pend = Pend::None;
    for (n, (sq, d)) in steps.iter().rev().enumerate() {
        let from = nb(*sq, *d)?;
        let c = step_code(from, opp(*d));
        if !b.legal(gold, n as u8, pend).contains(c) {
            return None;
        }
        let a = b.apply(gold, pend, from, opp(*d))?;
        if !a.captured.is_empty() {
            return None;
        }
        *b = a.board;
        pend = a.pend;
        script.push(c);
    }
    script.push(PASS);
    Some(())
}

/// Start position for W5c: per side one rabbit at home and 2-3 other pieces inside its own zone.
pub fn long_cycler_position(rng: &mut Rng) -> (MBoard, bool, u64) {
    let mut b = MBoard::empty();
    for gold in [true, false] {
        let home = if gold { 56 } else { 0 };
        b.0[home + rng.below(8)] = cell(0, gold);
        let n = 2 + rng.below(2);
        let mut left = COMPLEMENT;
        let mut placed = 0;
        while placed < n {
            let s = 1 + rng.below(5) as u8;
            if left[s as usize] == 0 {
                continue;
            }
            let i = if gold { 40 + rng.below(16) } else { 8 + rng.below(16) };
            if b.0[i] == 0 && !TRAPS.contains(&i) {
                b.0[i] = cell(s, gold);
                left[s as usize] -= 1;
                placed += 1;
            }
        }
    }
    (b, rng.chance(1, 2), 2 + rng.below(60) as u64)
}

/// W5c "long cyclers": a short 4-turn cycle (second occurrence of the start position), then an
/// out-walk of `k` rounds and the exact walk back, so that the start position is approached for
/// the third time 4k+4 turns after its first occurrence: the repetition scan has to reach that far
/// back, and every position of the out-walk recurs once, many turns apart.
pub fn long_cycler_script(b0: &MBoard, gold0: bool, k: usize, rng: &mut Rng) -> Option<Vec<Code>> {
    let mut script: Vec<Code> = vec![];
    let mut hist: std::collections::HashMap<(MBoard, bool), u32> = std::collections::HashMap::new();
    hist.insert((*b0, gold0), 1);
    let mut b = *b0;
    let push_turn = |steps: &[(usize, u8)], script: &mut Vec<Code>| {
        for (sq, d) in steps {
            script.push(step_code(*sq, *d));
        }
        script.push(PASS);
    };
    // the short cycle: T1, T2, undo T1, undo T2
    let t1 = model_turn(&mut b, gold0, rng)?;
    push_turn(&t1, &mut script);
    hist.insert((b, !gold0), 1);
    let t2 = model_turn(&mut b, !gold0, rng)?;
    push_turn(&t2, &mut script);
    hist.insert((b, gold0), 1);
    undo_turn(&mut b, gold0, &t1, &mut script)?;
    hist.insert((b, !gold0), 1);
    undo_turn(&mut b, !gold0, &t2, &mut script)?;
    if b != *b0 {
        return None;
    }
    *hist.entry((b, gold0)).or_insert(0) += 1; // second occurrence of the start position
    // the out-walk
    let mut turns: Vec<Vec<(usize, u8)>> = vec![];
    let mut gold = gold0;
    for _ in 0..2 * k {
        let mut tries = 0;
        loop {
            tries += 1;
            if tries > 12 {
                return None;
            }
            let mut nb_ = b;
            let steps = model_turn(&mut nb_, gold, rng)?;
            if hist.contains_key(&(nb_, !gold)) {
                continue; // keep the out-walk free of repetitions
            }
            hist.insert((nb_, !gold), 1);
            push_turn(&steps, &mut script);
            b = nb_;
            turns.push(steps);
            gold = !gold;
            break;
        }
    }
    // the walk back: each side undoes its own most recent turn (turns alternate gold0, !gold0, ...)
    let mut j = 2 * k;
    while j >= 2 {
        undo_turn(&mut b, gold0, &turns[j - 2], &mut script)?;
        undo_turn(&mut b, !gold0, &turns[j - 1], &mut script)?;
        j -= 2;
    }
    if b != *b0 {
        return None;
    }
    Some(script)
}

pub fn play_long_cyclers(games: u64, kmin: usize, kmax: usize, seed: u64, worker: usize, mon: &mut dyn Monitor, sink: &mut Sink) {
    let mut rng = Rng::new(seed, (worker as u64) << 8 | 0x5C);
    let opts = PlayOpts { max_turns: (4 * kmax + 40) as u32, max_actions: (20 * kmax + 200) as u32, ..PlayOpts::default() };
    for idx in 0..games {
        let mut done = false;
        for _ in 0..20 {
            let (b, gold, mv) = long_cycler_position(&mut rng);
            let k = kmin + rng.below(kmax - kmin + 1);
            if let Some(script) = long_cycler_script(&b, gold, k, &mut rng) {
                sink.count("long_cycler_scripts_built");
                sink.max("longest_long_cycler_script_turns", (4 * k + 4) as u64);
                let mut rec = GameRecord::new("W5c-long-cycler", seed, (worker as u64) << 32 | idx, Start::Inject { board: b, gold, moveno: mv });
                play(&mut rec, Policy::Script(script), &opts, &mut rng, mon, sink);
                done = true;
                break;
            }
        }
        if !done {
            sink.count("long_cycler_script_construction_failed");
        }
    }
}


/// W7c: full setup from GameState::initial() followed by a scripted 4-turn cycle played three
/// times from the very first play-phase position (is that position recorded as an occurrence?).
pub fn play_setup_cyclers(games: u64, seed: u64, worker: usize, mon: &mut dyn Monitor, sink: &mut Sink) {
    let mut rng = Rng::new(seed, (worker as u64) << 8 | 0x7C);
    let opts = PlayOpts { max_turns: 60, max_actions: 260, ..PlayOpts::default() };
    for idx in 0..games {
        let mut built = false;
        for _ in 0..10 {
            // a random valid placement order for both sides
            let mut placements: Vec<u8> = vec![];
            let mut model = SetupModel::new();
            for _ in 0..2 {
                let mut army: Vec<u8> = vec![];
                for s in 0..6u8 {
                    for _ in 0..COMPLEMENT[s as usize] {
                        army.push(s);
                    }
                }
                rng.shuffle(&mut army);
                for s in &army {
                    model.place(*s);
                }
                placements.extend(army);
            }
            if let Some(script) = cycler_script(&model.board, true, &mut rng) {
                sink.count("setup_cycler_scripts_built");
                let mut rec = GameRecord::new("W7c-setup-cycler", seed, (worker as u64) << 32 | idx, Start::Setup { placements });
                play(&mut rec, Policy::Script(script), &opts, &mut rng, mon, sink);
                built = true;
                break;
            }
        }
        if !built {
            sink.count("setup_cycler_script_construction_failed");
        }
    }
}

/// W5b, second generation: saturation in the world where a weak enemy piece p stands on q'
/// (two squares from s, behind q in N(s)), then p steps back to q on its own, and the final turn is
///   kind "pull_restores_start":  push p q->q', X s->q, X q->s. At step 3 the pass and every step of
///        X recreate positions that occurred twice, and the only other candidate, pulling p back,
///        restores the board of the turn start: every candidate of every branch of has_move is withheld;
///   kind "push_completion_third": X w->..->s (two steps), push p q->q' (third step); the only
///        completion X s->q recreates a position that occurred twice: the rule-only list must still
///        contain it, the offered list must not.
pub fn saturated_script2(rng: &mut Rng, kind_sel: usize) -> Option<(MBoard, bool, Vec<Code>, &'static str)> {
    let dist = |a: usize, b: usize| ((a % 8) as i32 - (b % 8) as i32).abs() + ((a / 8) as i32 - (b / 8) as i32).abs();
    'attempt: for _ in 0..80 {
        let gold = rng.chance(1, 2);
        let mirror = rng.chance(1, 2);
        let s = [25usize, 26, 27, 28, 29, 30, 33, 34, 35, 36, 37, 38][rng.below(12)];
        let d = rng.below(4) as u8;
        let q = nb(s, d)?;
        // q' beyond q, not adjacent to s
        let qc: Vec<usize> = (0..4u8).filter_map(|k| nb(q, k)).filter(|x| *x != s && dist(*x, s) >= 2 && !TRAPS.contains(x) && (1..7).contains(&(x / 8))).collect();
        if qc.is_empty() || TRAPS.contains(&q) || TRAPS.contains(&s) {
            continue;
        }
        let qp = qc[rng.below(qc.len())];
        let ns: Vec<usize> = (0..4u8).filter_map(|k| nb(s, k)).collect();
        if ns.iter().any(|n| TRAPS.contains(n)) {
            continue;
        }
        let ws: Vec<usize> = (8..56).filter(|w| (dist(*w, s) == 2 || dist(*w, s) == 3) && !TRAPS.contains(w) && *w != qp && !ns.contains(w) && dist(*w, qp) >= 2).collect();
        if ws.len() < 7 {
            continue;
        }
        let xs = 1 + rng.below(5) as u8;
        let mut b = MBoard::empty();
        b.0[56] = cell(0, true);
        b.0[48] = cell(1 + rng.below(2) as u8, false);
        b.0[7] = cell(0, false);
        let mut all: Vec<usize> = vec![s, q, qp];
        all.extend(ns.iter());
        all.extend(ws.iter());
        let zcands: Vec<(usize, usize)> = [(31usize, 39usize), (23, 31), (39, 47), (24, 32), (32, 40), (16, 24)].iter().copied().filter(|(a, c)| all.iter().all(|x| dist(*x, *a) >= 2 && dist(*x, *c) >= 2)).collect();
        if zcands.is_empty() {
            continue;
        }
        let (za, zb) = zcands[rng.below(zcands.len())];
        b.0[za] = cell(2 + rng.below(3) as u8, false);
        if b.0[qp] != 0 || b.0[ws[0]] != 0 {
            continue;
        }
        b.0[qp] = cell(rng.below(xs as usize) as u8, false);
        b.0[ws[0]] = cell(xs, true);
        if !b.is_legal_position() {
            continue;
        }
        let kind = if kind_sel % 2 == 0 { "pull_restores_start" } else { "push_completion_third" };
        // on-beat plan: every target twice; for kind A the second visit of s is the last on-beat turn
        let targets: Vec<usize> = std::iter::once(s).chain(ns.iter().copied().filter(|x| b.0[*x] == 0)).collect();
        let mut on: Vec<usize> = targets.clone();
        let mut second: Vec<usize> = targets.iter().copied().filter(|x| *x != s).collect();
        rng.shuffle(&mut second);
        on.extend(second);
        if kind == "pull_restores_start" {
            on.push(s);
        } else {
            on.push(s);
            // one more on-beat turn that parks X two steps from s (fresh position)
            on.push(ws[1 + rng.below(ws.len() - 1)]);
        }
        let mut board = b;
        let mut script: Vec<Code> = vec![];
        let mut hist: std::collections::HashMap<(MBoard, bool), u32> = std::collections::HashMap::new();
        hist.insert((board, true), 1);
        let mut xpos = ws[0];
        let mut zpos = za;
        let path = |board: &MBoard, from: usize, to: usize, maxlen: usize| -> Option<Vec<(usize, u8)>> {
            let mut prevm: std::collections::HashMap<usize, (usize, u8)> = std::collections::HashMap::new();
            let mut frontier = vec![from];
            for _ in 0..maxlen {
                let mut next = vec![];
                for f in frontier {
                    for k in 0..4u8 {
                        if let Some(n2) = nb(f, k) {
                            if n2 != from && board.0[n2] == 0 && !TRAPS.contains(&n2) && !prevm.contains_key(&n2) {
                                prevm.insert(n2, (f, k));
                                next.push(n2);
                            }
                        }
                    }
                }
                frontier = next;
            }
            if !prevm.contains_key(&to) {
                return None;
            }
            let mut out = vec![];
            let mut cur = to;
            while cur != from {
                let (p, k) = prevm[&cur];
                out.push((p, k));
                cur = p;
            }
            out.reverse();
            Some(out)
        };
        // gold walk turn helper
        let mut wi = 1usize;
        let n_on = on.len();
        for (i, dest) in on.iter().enumerate() {
            // on-beat turn to `dest`
            for phase in 0..2 {
                let target = if phase == 0 {
                    *dest
                } else {
                    wi += 1;
                    ws[1 + wi % (ws.len() - 1)]
                };
                if phase == 1 && i == n_on - 1 {
                    break; // after the last on-beat turn the other side moves p, not z
                }
                if target == xpos {
                    continue 'attempt;
                }
                let steps = match path(&board, xpos, target, 4) {
                    Some(p) => p,
                    None => continue 'attempt,
                };
                let mut pend = Pend::None;
                for (k, (sq, dd)) in steps.iter().enumerate() {
                    if !board.legal(true, k as u8, pend).contains(step_code(*sq, *dd)) {
                        continue 'attempt;
                    }
                    let a = board.apply(true, pend, *sq, *dd).unwrap();
                    if !a.captured.is_empty() {
                        continue 'attempt;
                    }
                    board = a.board;
                    pend = a.pend;
                    script.push(step_code(*sq, *dd));
                }
                let c = hist.entry((board, false)).or_insert(0);
                if *c >= 2 {
                    continue 'attempt;
                }
                *c += 1;
                if steps.len() < 4 {
                    script.push(PASS);
                }
                xpos = target;
                // the other side: z alternates (after every gold turn except the very last on-beat one)
                if !(phase == 0 && i == n_on - 1) {
                    let (zf, zt) = if zpos == za { (za, zb) } else { (zb, za) };
                    let dz = (0..4u8).find(|k| nb(zf, *k) == Some(zt)).unwrap();
                    if !board.legal(false, 0, Pend::None).contains(step_code(zf, dz)) {
                        continue 'attempt;
                    }
                    board = board.apply(false, Pend::None, zf, dz).unwrap().board;
                    zpos = zt;
                    let c = hist.entry((board, true)).or_insert(0);
                    if *c >= 2 {
                        continue 'attempt;
                    }
                    *c += 1;
                    script.push(step_code(zf, dz));
                    script.push(PASS);
                }
            }
        }
        if zpos != za {
            continue;
        }
        // the other side steps p back from q' to q
        let dp = (0..4u8).find(|k| nb(qp, *k) == Some(q))?;
        if !board.legal(false, 0, Pend::None).contains(step_code(qp, dp)) {
            continue;
        }
        let a = board.apply(false, Pend::None, qp, dp).unwrap();
        if !a.captured.is_empty() {
            continue;
        }
        board = a.board;
        script.push(step_code(qp, dp));
        script.push(PASS);
        // the final turn
        let dqs = (0..4u8).find(|k| nb(s, *k) == Some(q))?; // s -> q
        let mut pend = Pend::None;
        let mut k = 0u8;
        let mut do_step = |board: &mut MBoard, pend: &mut Pend, k: &mut u8, sq: usize, dd: u8, script: &mut Vec<Code>| -> bool {
            if !board.legal(true, *k, *pend).contains(step_code(sq, dd)) {
                return false;
            }
            let a = board.apply(true, *pend, sq, dd).unwrap();
            if !a.captured.is_empty() {
                return false;
            }
            *board = a.board;
            *pend = a.pend;
            *k += 1;
            script.push(step_code(sq, dd));
            true
        };
        if kind == "pull_restores_start" {
            if xpos != s {
                continue;
            }
            if !do_step(&mut board, &mut pend, &mut k, q, opp(dp), &mut script) || !do_step(&mut board, &mut pend, &mut k, s, dqs, &mut script) || !do_step(&mut board, &mut pend, &mut k, q, opp(dqs), &mut script) {
                continue;
            }
        } else {
            let steps = match path(&board, xpos, s, 2) {
                Some(p) if p.len() == 2 => p,
                _ => continue,
            };
            for (sq, dd) in steps {
                if !do_step(&mut board, &mut pend, &mut k, sq, dd, &mut script) {
                    continue 'attempt;
                }
            }
            if !do_step(&mut board, &mut pend, &mut k, q, opp(dp), &mut script) {
                continue;
            }
            // the completion s -> q is the scripted next action; the engine must withhold it
            script.push(step_code(s, dqs));
        }
        let flip = !gold;
        let tb = b.transform(mirror, flip);
        let tscript: Vec<Code> = script.iter().map(|c| map_code(*c, mirror, flip)).collect();
        return Some((tb, gold, tscript, kind));
    }
    None
}

/// W5d "take-back cyclers": side A plays a short turn (own steps, possibly a push or pull), side B
/// answers with a turn that restores the previous board exactly (found by a pruned search over the
/// model's legal steps: own steps back, pushes, pulls; ended by a pass or by its fourth step). The
/// two turns are scripted three times, so that the third occurrence is attempted by a turn that
/// takes back the opponent's whole previous turn (the occurrence to be counted is the position the
/// OPPONENT started from) - by pass, by a fourth step, or by a push completion as fourth step.
pub fn takeback_script(rng: &mut Rng) -> Option<(MBoard, bool, Vec<Code>, &'static str)> {
    fn diff(a: &MBoard, b: &MBoard) -> usize {
        (0..64).filter(|i| a.0[*i] != b.0[*i]).count()
    }
    // all turns of `gold` from `from` that end exactly on `target` without captures
    fn search(cur: &MBoard, target: &MBoard, gold: bool, k: u8, pend: Pend, path: &mut Vec<Code>, out: &mut Vec<Vec<Code>>, budget: &mut u32) {
        if *budget == 0 || out.len() >= 6 {
            return;
        }
        *budget -= 1;
        if k >= 1 && cur == target && !matches!(pend, Pend::Push(..)) {
            let mut p = path.clone();
            if k < 4 {
                p.push(PASS);
            }
            out.push(p);
        }
        if k == 4 {
            return;
        }
        // each step repairs at most two squares
        if diff(cur, target) > 2 * (4 - k as usize) + 2 {
            return;
        }
        for c in cur.legal(gold, k, pend).iter() {
            if !is_step(c) {
                continue;
            }
            if let Some(a) = cur.apply(gold, pend, code_sq(c), code_dir(c)) {
                if !a.captured.is_empty() {
                    continue;
                }
                path.push(c);
                search(&a.board, target, gold, k + 1, a.pend, path, out, budget);
                path.pop();
            }
        }
    }
    for _ in 0..40 {
        // a small mixed cluster: pieces of both sides close together, rabbits at home
        let mut b = MBoard::empty();
        let c0 = [26usize, 27, 28, 29, 34, 35, 36, 37][rng.below(8)];
        b.0[56 + rng.below(8)] = cell(0, true);
        b.0[rng.below(8)] = cell(0, false);
        let mut left = [COMPLEMENT, COMPLEMENT];
        let n = 3 + rng.below(3);
        let mut placed = 0;
        let mut guard = 0;
        while placed < n && guard < 60 {
            guard += 1;
            let i = (c0 as i32 + [-9, -8, -7, -1, 0, 1, 7, 8, 9, -16, 16, -2, 2][rng.below(13)]) as usize;
            if i >= 64 || b.0[i] != 0 || TRAPS.contains(&i) {
                continue;
            }
            let g = placed % 2 == 0;
            let s = rng.below(6) as u8;
            let side = if g { 0 } else { 1 };
            if left[side][s as usize] == 0 || (s == 0 && (i / 8 == 0 || i / 8 == 7)) {
                continue;
            }
            left[side][s as usize] -= 1;
            b.0[i] = cell(s, g);
            placed += 1;
        }
        if !b.is_legal_position() || b.result(true).is_some() || b.result(false).is_some() {
            continue;
        }
        let a_side = rng.chance(1, 2);
        // A's turn: 1..3 random legal steps (any kind), no capture, board changed, no pending push at the end
        let mut cur = b;
        let mut pend = Pend::None;
        let mut a_turn: Vec<Code> = vec![];
        let ka = 1 + rng.below(3);
        let mut ok = true;
        for st in 0..ka {
            let legal: Vec<Code> = cur.legal(a_side, st as u8, pend).iter().filter(|c| is_step(*c)).filter(|c| cur.apply(a_side, pend, code_sq(*c), code_dir(*c)).map_or(false, |a| a.captured.is_empty())).collect();
            if legal.is_empty() {
                ok = false;
                break;
            }
            let c = legal[rng.below(legal.len())];
            let a = cur.apply(a_side, pend, code_sq(c), code_dir(c)).unwrap();
            cur = a.board;
            pend = a.pend;
            a_turn.push(c);
        }
        if !ok || cur == b || matches!(pend, Pend::Push(..)) {
            continue;
        }
        a_turn.push(PASS);
        if cur.result(!a_side).is_some() {
            continue;
        }
        // B's take-back
        let mut out: Vec<Vec<Code>> = vec![];
        let mut budget = 20_000u32;
        search(&cur, &b, !a_side, 0, Pend::None, &mut vec![], &mut out, &mut budget);
        if out.is_empty() {
            continue;
        }
        // prefer take-backs that end by their fourth step
        let four: Vec<&Vec<Code>> = out.iter().filter(|t| t.len() == 4 && *t.last().unwrap() != PASS).collect();
        let tb = if !four.is_empty() && rng.chance(2, 3) { four[rng.below(four.len())].clone() } else { out[rng.below(out.len())].clone() };
        let kind = if tb.len() == 4 && *tb.last().unwrap() != PASS {
            // is the fourth step a push completion?
            "takeback_by_fourth_step"
        } else {
            "takeback_by_pass"
        };
        let mut script = vec![];
        for _ in 0..3 {
            script.extend_from_slice(&a_turn);
            script.extend_from_slice(&tb);
        }
        return Some((b, a_side, script, kind));
    }
    None
}

pub fn play_takebacks(games: u64, seed: u64, worker: usize, mon: &mut dyn Monitor, sink: &mut Sink) {
    let mut rng = Rng::new(seed, (worker as u64) << 8 | 0x5D);
    let opts = PlayOpts { max_turns: 40, max_actions: 200, ..PlayOpts::default() };
    for idx in 0..games {
        match takeback_script(&mut rng) {
            Some((b, gold, script, kind)) => {
                sink.count(&format!("takeback_scripts_{}", kind));
                let mut rec = GameRecord::new("W5d-takeback", seed, (worker as u64) << 32 | idx, Start::Inject { board: b, gold, moveno: 2 + rng.below(50) as u64 });
                play(&mut rec, Policy::Script(script), &opts, &mut rng, mon, sink);
            }
            None => sink.count("takeback_script_construction_failed"),
        }
    }
}

/// W5e: null turns on wide-open positions. From a wide or scattered position (gen::wide) the script plays a
/// capture-free step of a non-rabbit piece, takes it back, plays it again and tries to take it back once more -
/// the fourth step would end the turn on the unchanged board and must not be offered (the script then falls
/// back to uniform play). Every direction and every region of the board is tried, with the longest step lists
/// the rules allow.
pub fn play_null_turns(games: u64, seed: u64, worker: usize, mon: &mut dyn Monitor, sink: &mut Sink) {
    let mut rng = Rng::new(seed, (worker as u64) << 8 | 0x5E);
    let opts = PlayOpts { max_turns: 3, max_actions: 14, ..PlayOpts::default() };
    for idx in 0..games {
        let (b, gold, mv) = gen::wide(&mut rng);
        let legal = b.legal(gold, 0, Pend::None);
        let cands: Vec<Code> = legal
            .iter()
            .filter(|c| {
                is_step(*c) && {
                    let (sq, d) = (code_sq(*c), code_dir(*c));
                    let cl = b.0[sq];
                    cl != 0 && is_gold(cl) == gold && strength(cl) != 0 && b.apply(gold, Pend::None, sq, d).map_or(false, |a| a.captured.is_empty() && !TRAPS.contains(&a.to))
                }
            })
            .collect();
        if cands.is_empty() {
            sink.count("null_turn_script_construction_failed");
            continue;
        }
        // westward steps of pieces low on the board come last in most generation orders: every other game prefers the end of the list
        let a = if idx % 2 == 0 { cands[rng.below(cands.len())] } else { cands[cands.len() - 1 - rng.below(cands.len().min(6))] };
        let to = match nb(code_sq(a), code_dir(a)) {
            Some(t) => t,
            None => continue,
        };
        let undo = step_code(to, opp(code_dir(a)));
        let script = vec![a, undo, a, undo];
        sink.count("null_turn_scripts");
        let mut rec = GameRecord::new("W5e-null-turn", seed, (worker as u64) << 32 | idx, Start::Inject { board: b, gold, moveno: mv });
        play(&mut rec, Policy::Script(script), &opts, &mut rng, mon, sink);
    }
}
