//! What a monitor reports: named event counters, the set of distinct non-trivial cases it
//! judged, a few sample cases, and violations with their replayable witness.

use crate::record::GameRecord;
use serde_json::{json, Value};
use std::collections::{BTreeMap, HashSet};

pub const DISTINCT_CAP: usize = 4_000_000;
pub const MAX_VIOLATIONS_KEPT: usize = 8;
pub const MAX_SAMPLES: usize = 4;

#[derive(Clone, Debug)]
pub struct Violation {
    pub property: &'static str,
    /// which clause of the property's oracle fired (stable name)
    pub clause: String,
    /// exact signature used for known-findings matching
    pub sig: String,
    pub detail: String,
    /// replayable witness
    pub witness: Value,
}

#[derive(Default)]
pub struct Sink {
    /// prepended to the detail of game violations (which synthetic twin of the recorded state was judged)
    pub context: Option<String>,
    pub counters: BTreeMap<String, u64>,
    pub distinct: HashSet<u64>,
    pub distinct_overflow: u64,
    pub samples: Vec<Value>,
    pub violations: Vec<Violation>,
    pub violation_count: u64,
    pub engine_panics: u64,
    pub panic_sites: BTreeMap<String, u64>,
    pub games: u64,
    pub games_aborted: u64,
    pub resyncs: u64,
    pub harness_notes: Vec<String>,
    /// merged by maximum
    pub maxima: BTreeMap<String, u64>,
    /// merged by OR; reported as the number of set bits
    pub bitsets: BTreeMap<String, Vec<u64>>,
}

impl Sink {
    pub fn new() -> Sink {
        Sink::default()
    }
    #[inline]
    pub fn add(&mut self, name: &str, n: u64) {
        if n == 0 {
            if !self.counters.contains_key(name) {
                self.counters.insert(name.to_string(), 0);
            }
            return;
        }
        if let Some(c) = self.counters.get_mut(name) {
            *c += n;
        } else {
            self.counters.insert(name.to_string(), n);
        }
    }
    #[inline]
    pub fn count(&mut self, name: &str) {
        self.add(name, 1)
    }
    pub fn get(&self, name: &str) -> u64 {
        if let Some(m) = self.maxima.get(name) {
            return *m;
        }
        if let Some(b) = self.bitsets.get(name) {
            return b.iter().map(|w| w.count_ones() as u64).sum();
        }
        self.counters.get(name).copied().unwrap_or(0)
    }
    pub fn max(&mut self, name: &str, v: u64) {
        let e = self.maxima.entry(name.to_string()).or_insert(0);
        *e = (*e).max(v);
    }
    pub fn bit(&mut self, name: &str, idx: usize) {
        let e = self.bitsets.entry(name.to_string()).or_default();
        if e.len() <= idx / 64 {
            e.resize(idx / 64 + 1, 0);
        }
        e[idx / 64] |= 1u64 << (idx % 64);
    }
    pub fn declare_bits(&mut self, name: &str) {
        self.bitsets.entry(name.to_string()).or_default();
    }
    /// all counters including maxima and bitset cardinalities
    pub fn all_counters(&self) -> BTreeMap<String, u64> {
        let mut m = self.counters.clone();
        for (k, v) in &self.maxima {
            m.insert(k.clone(), *v);
        }
        for k in self.bitsets.keys() {
            m.insert(k.clone(), self.get(k));
        }
        m
    }
    #[inline]
    pub fn distinct(&mut self, fp: u64) {
        if self.distinct.len() < DISTINCT_CAP {
            self.distinct.insert(fp);
        } else {
            self.distinct_overflow += 1;
        }
    }
    pub fn want_sample(&self) -> bool {
        self.samples.len() < MAX_SAMPLES
    }
    pub fn sample(&mut self, v: Value) {
        if self.samples.len() < MAX_SAMPLES {
            self.samples.push(v);
        }
    }
    pub fn violate(&mut self, property: &'static str, clause: &str, sig: String, detail: String, witness: Value) {
        self.violation_count += 1;
        if self.violations.len() < MAX_VIOLATIONS_KEPT {
            self.violations.push(Violation { property, clause: clause.to_string(), sig, detail, witness });
        }
    }
    /// violation whose witness is a game prefix
    pub fn violate_game(&mut self, property: &'static str, clause: &str, rec: &GameRecord, detail: String) {
        let detail = match &self.context {
            Some(c) => format!("[{}] {}", c, detail),
            None => detail,
        };
        let sig = format!("{}|{}|{}{}", property, clause, rec.signature(), self.context.as_deref().map(|c| format!("|{}", c)).unwrap_or_default());
        let mut w = rec.to_json();
        w["state_index"] = json!(rec.actions.len());
        w["clause"] = json!(clause);
        w["detail"] = json!(detail.clone());
        self.violate(property, clause, sig, detail, w);
    }
    pub fn merge(&mut self, o: Sink) {
        for (k, v) in o.counters {
            *self.counters.entry(k).or_insert(0) += v;
        }
        for fp in o.distinct {
            self.distinct(fp);
        }
        self.distinct_overflow += o.distinct_overflow;
        for s in o.samples {
            self.sample(s);
        }
        for v in o.violations {
            if self.violations.len() < MAX_VIOLATIONS_KEPT {
                self.violations.push(v);
            }
        }
        for (k, v) in o.maxima {
            self.max(&k, v);
        }
        for (k, v) in o.bitsets {
            let e = self.bitsets.entry(k).or_default();
            if e.len() < v.len() {
                e.resize(v.len(), 0);
            }
            for (i, w) in v.iter().enumerate() {
                e[i] |= *w;
            }
        }
        self.violation_count += o.violation_count;
        self.engine_panics += o.engine_panics;
        for (k, v) in o.panic_sites {
            *self.panic_sites.entry(k).or_insert(0) += v;
        }
        self.games += o.games;
        self.games_aborted += o.games_aborted;
        self.resyncs += o.resyncs;
        for n in o.harness_notes {
            if self.harness_notes.len() < 20 {
                self.harness_notes.push(n);
            }
        }
    }
}
