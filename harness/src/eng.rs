//! The client boundary to the engine: every engine call made by the driver goes through `guard`
//! (catch_unwind + silent panic hook that records the panic site), boards are decoded from the
//! engine's documented accessors into the model's mailbox form, and actions are identified by
//! their text (the code table is built from notation strings, not from internal indices).

use crate::model::*;
use arimaa_engine_step::*;
use std::cell::{Cell, RefCell};
use std::panic::{catch_unwind, AssertUnwindSafe};
use std::sync::OnceLock;

#[derive(Clone, Debug, PartialEq, Eq)]
pub struct PanicInfo {
    pub api: &'static str,
    pub site: String,
    pub msg: String,
}

thread_local! {
    static GUARD_DEPTH: Cell<u32> = Cell::new(0);
    /// look-alike decoy states: while set, every guarded engine call on the monitored state is
    /// preceded by the same call on each decoy (whatever the engine remembers from its previous call
    /// - memo tables, thread-local hand-overs - then comes from a state that agrees with the
    /// monitored one in part of its description only)
    static DECOYS: RefCell<Vec<GameState>> = RefCell::new(Vec::new());
    static DECOY_ACTION: Cell<Option<Action>> = Cell::new(None);
    static IN_DECOY: Cell<bool> = Cell::new(false);
    static DECOY_CALLS: Cell<u64> = Cell::new(0);
    static DECOY_ROT: Cell<usize> = Cell::new(0);
    /// in this mode the decoys take a step only AFTER the monitored state did, never before
    static DECOY_POST_ONLY: Cell<bool> = Cell::new(false);
    static LAST_PANIC: RefCell<Option<(String, String)>> = RefCell::new(None);
}

pub fn install_panic_hook() {
    static ONCE: OnceLock<()> = OnceLock::new();
    ONCE.get_or_init(|| {
        let prev = std::panic::take_hook();
        std::panic::set_hook(Box::new(move |info| {
            let guarded = GUARD_DEPTH.with(|d| d.get()) > 0;
            if guarded {
                let site = info
                    .location()
                    .map(|l| format!("{}:{}", l.file(), l.line()))
                    .unwrap_or_else(|| "?".into());
                let msg = if let Some(s) = info.payload().downcast_ref::<&str>() {
                    s.to_string()
                } else if let Some(s) = info.payload().downcast_ref::<String>() {
                    s.clone()
                } else {
                    "<non-string payload>".into()
                };
                LAST_PANIC.with(|p| *p.borrow_mut() = Some((site, msg)));
            } else {
                prev(info);
            }
        }));
    });
}

/// Run an engine call; an unwind becomes an observed event with its site.
pub fn set_decoys(v: Vec<GameState>) {
    DECOYS.with(|d| *d.borrow_mut() = v);
}
pub fn take_decoys() -> Vec<GameState> {
    DECOYS.with(|d| std::mem::take(&mut *d.borrow_mut()))
}
pub fn decoy_calls() -> u64 {
    DECOY_CALLS.with(|c| c.replace(0))
}
/// guard for calls that take an action: the decoys are asked about the same action first
pub fn guard_act<T>(api: &'static str, a: &Action, f: impl FnOnce() -> T) -> Result<T, PanicInfo> {
    DECOY_ACTION.with(|c| c.set(Some(*a)));
    let r = guard(api, f);
    DECOY_ACTION.with(|c| c.set(None));
    r
}
fn decoy_pre(api: &'static str) {
    if IN_DECOY.with(|c| c.get()) || DECOYS.with(|d| d.borrow().is_empty()) {
        return;
    }
    IN_DECOY.with(|c| c.set(true));
    let decoys = DECOYS.with(|d| std::mem::take(&mut *d.borrow_mut()));
    let act = DECOY_ACTION.with(|c| c.get());
    GUARD_DEPTH.with(|d| d.set(d.get() + 1));
    let mut n = 0u64;
    // a one-entry memo only remembers the LAST decoy: rotate, so that each of them is last in turn
    let rot = DECOY_ROT.with(|c| {
        c.set(c.get().wrapping_add(1));
        c.get()
    }) % decoys.len();
    for d in decoys[rot..].iter().chain(decoys[..rot].iter()) {
        let _ = catch_unwind(AssertUnwindSafe(|| {
            match api {
                "valid_actions_no_rep" => {
                    let _ = d.valid_actions_no_rep();
                }
                "valid_actions" => {
                    let _ = d.valid_actions();
                }
                "is_terminal" => {
                    let _ = d.is_terminal();
                }
                "summaries" => {
                    let _ = (d.is_terminal(), d.has_move(d.piece_board()));
                    if d.is_play_phase() {
                        let _ = (d.can_pass(true), d.can_pass(false));
                    }
                }
                "trapped_animal_for_action" => {
                    if let Some(a) = act {
                        let _ = d.trapped_animal_for_action(&a);
                    }
                }
                "take_action" | "preview+apply" => {
                    // everything a client may have asked the decoy before the monitored state is stepped
                    let _ = (d.valid_actions_no_rep(), d.valid_actions(), d.is_terminal(), d.has_move(d.piece_board()));
                    if let Some(a) = act {
                        let _ = d.trapped_animal_for_action(&a);
                        let _ = d.take_action(&a);
                        let _ = d.trapped_animal_for_action(&a);
                    }
                }
                "transposition_hash" | "hash queries" | "hash of reached state" => {
                    let _ = d.transposition_hash();
                }
                "GameState::to_string" => {
                    let _ = d.to_string();
                }
                "GameState::from_str" | "to_string of parsed" => {
                    let _ = d.to_string().parse::<GameState>().map(|p| p.to_string());
                }
                "piece_board_for_step" | "previous_piece_boards" | "board views" | "getters" => {
                    if d.is_play_phase() {
                        for i in 0..=d.current_step() {
                            let _ = d.piece_board_for_step(i).all_pieces;
                        }
                    }
                }
                _ => {}
            }
        }));
        n += 1;
    }
    GUARD_DEPTH.with(|d| d.set(d.get() - 1));
    LAST_PANIC.with(|p| *p.borrow_mut() = None);
    DECOY_CALLS.with(|c| c.set(c.get() + n));
    DECOYS.with(|d| *d.borrow_mut() = decoys);
    IN_DECOY.with(|c| c.set(false));
}

pub fn set_decoy_post_only(v: bool) {
    DECOY_POST_ONLY.with(|c| c.set(v));
}

pub fn guard<T>(api: &'static str, f: impl FnOnce() -> T) -> Result<T, PanicInfo> {
    let stepping = api == "take_action" || api == "preview+apply";
    if !(stepping && DECOY_POST_ONLY.with(|c| c.get())) {
        decoy_pre(api);
    }
    GUARD_DEPTH.with(|d| d.set(d.get() + 1));
    let r = catch_unwind(AssertUnwindSafe(f));
    GUARD_DEPTH.with(|d| d.set(d.get() - 1));
    if api == "take_action" || api == "preview+apply" {
        // the decoys also take the step right AFTER the monitored state did (what they leave behind is then
        // newer than what the monitored step left)
        let saved = LAST_PANIC.with(|p| p.borrow_mut().take());
        decoy_pre(api);
        LAST_PANIC.with(|p| *p.borrow_mut() = saved);
    }
    match r {
        Ok(v) => Ok(v),
        Err(_) => {
            let (site, msg) = LAST_PANIC
                .with(|p| p.borrow_mut().take())
                .unwrap_or_else(|| ("?".into(), "?".into()));
            // strip the absolute prefix so that signatures do not depend on where /repo lives
            let site = site.rsplit_once("/src/").map(|(_, t)| format!("src/{}", t)).unwrap_or(site);
            Err(PanicInfo { api, site, msg })
        }
    }
}

pub struct Tables {
    pub piece: [Piece; 6],
    pub act_by_code: Vec<Action>,
    code_by_key: Vec<Code>,
    /// "text" if the table was built through the notation parser, "constructors" if the parser
    /// was unusable and Square::from_index / Direction::ALL had to be used instead.
    pub via: &'static str,
    pub problems: Vec<String>,
}

#[inline]
fn key(a: &Action) -> usize {
    match a {
        Action::Move(s, d) => s.index().wrapping_mul(4).wrapping_add(*d as usize),
        Action::Pass => 256,
        Action::Place(p) => 257 + *p as usize,
    }
}

pub fn tables() -> &'static Tables {
    static T: OnceLock<Tables> = OnceLock::new();
    T.get_or_init(build_tables)
}

fn build_tables() -> Tables {
    install_panic_hook();
    let mut problems = vec![];
    // pieces by letter
    let mut piece = [Piece::Rabbit; 6];
    let mut via = "text";
    for s in 0..6 {
        match guard("Piece::from_str", || LETTERS[s].to_string().parse::<Piece>()) {
            Ok(Ok(p)) => piece[s] = p,
            _ => {
                problems.push(format!("piece letter {} does not parse", LETTERS[s]));
                via = "constructors";
                piece[s] = Piece::ALL[s];
            }
        }
    }
    let mut act_by_code = Vec::with_capacity(263);
    for c in 0..263u16 {
        let text = code_text(c);
        let a = match guard("Action::from_str", || text.parse::<Action>()) {
            Ok(Ok(a)) => a,
            _ => {
                problems.push(format!("action text {} does not parse", text));
                via = "constructors";
                if c < 256 {
                    Action::Move(Square::from_index((c / 4) as u8), Direction::ALL[(c % 4) as usize])
                } else if c == PASS {
                    Action::Pass
                } else {
                    Action::Place(piece[(c - 257) as usize])
                }
            }
        };
        act_by_code.push(a);
    }
    let mut code_by_key = vec![u16::MAX; 263];
    for (c, a) in act_by_code.iter().enumerate() {
        let k = key(a);
        if k >= 263 || code_by_key[k] != u16::MAX {
            problems.push(format!("action key collision / out of range for {}", code_text(c as u16)));
            continue;
        }
        code_by_key[k] = c as u16;
    }
    Tables { piece, act_by_code, code_by_key, via, problems }
}

/// Model code of an engine action (u16::MAX if it is not one of the 263 values).
#[inline]
pub fn act_code(a: &Action) -> Code {
    let k = key(a);
    let t = tables();
    if k < 263 {
        t.code_by_key[k]
    } else {
        u16::MAX
    }
}
#[inline]
pub fn code_act(c: Code) -> Action {
    tables().act_by_code[c as usize]
}
pub fn codes_of(v: &[Action]) -> Vec<Code> {
    v.iter().map(act_code).collect()
}
#[inline]
pub fn piece_strength(p: Piece) -> u8 {
    // Piece is a fieldless enum ordered Rabbit..Elephant; the table is validated against the letters
    static T: OnceLock<[u8; 6]> = OnceLock::new();
    let t = T.get_or_init(|| {
        let mut m = [0u8; 6];
        for (s, p) in tables().piece.iter().enumerate() {
            m[*p as usize] = s as u8;
        }
        m
    });
    t[p as usize]
}

/// Decode the engine's board through `bits_for_piece` (bit i = square index i).
pub fn decode_board(pb: &PieceBoardState) -> MBoard {
    let t = tables();
    let mut b = MBoard::empty();
    for gold in [true, false] {
        for s in 0..6u8 {
            let mut bits = pb.bits_for_piece(t.piece[s as usize], gold);
            while bits != 0 {
                let i = bits.trailing_zeros() as usize;
                b.0[i] = cell(s, gold);
                bits &= bits - 1;
            }
        }
    }
    b
}

pub fn board_bits(b: &MBoard) -> [u64; 7] {
    // [p1, elephants, camels, horses, dogs, cats, rabbits]
    let mut bits = [0u64; 7];
    for i in 0..64 {
        let c = b.0[i];
        if c != 0 {
            let k = 6 - strength(c) as usize; // E=1 .. R=6
            bits[k] |= 1u64 << i;
            if is_gold(c) {
                bits[0] |= 1u64 << i;
            }
        }
    }
    bits
}

pub fn piece_board_of(b: &MBoard) -> PieceBoard {
    let k = board_bits(b);
    PieceBoard::new(k[0], k[1], k[2], k[3], k[4], k[5], k[6])
}

/// Turn-start state of a legal position built with the public constructors
/// (the same state the text parser produces; C15 cross-checks the two routes).
pub fn inject(b: &MBoard, gold: bool, moveno: u64) -> GameState {
    let pb = piece_board_of(b);
    let h = Zobrist::from_piece_board(pb.piece_board(), gold, 0);
    let hist = List::new().append(h);
    GameState::new(gold, moveno as usize, Phase::PlayPhase(PlayPhase::initial(h, hist)), pb, h)
}

pub fn parse_state(text: &str) -> Result<Result<GameState, String>, PanicInfo> {
    guard("GameState::from_str", || text.parse::<GameState>().map_err(|e| e.to_string()))
}

pub fn decode_pend(p: PushPullState) -> Pend {
    match p {
        PushPullState::None => Pend::None,
        PushPullState::PossiblePull(s, p) => Pend::Pull(s.index() as u8, piece_strength(p)),
        PushPullState::MustCompletePush(s, p) => Pend::Push(s.index() as u8, piece_strength(p)),
    }
}
pub fn encode_pend(p: Pend) -> PushPullState {
    let t = tables();
    match p {
        Pend::None => PushPullState::None,
        Pend::Pull(s, st) => PushPullState::PossiblePull(Square::from_index(s), t.piece[st as usize]),
        Pend::Push(s, st) => PushPullState::MustCompletePush(Square::from_index(s), t.piece[st as usize]),
    }
}
pub fn decode_term(t: &Option<Terminal>) -> Option<bool> {
    t.as_ref().map(|t| *t == Terminal::GoldWin)
}
pub fn term_text(t: Option<bool>) -> &'static str {
    match t {
        None => "none",
        Some(true) => "GoldWin",
        Some(false) => "SilverWin",
    }
}


/// A `log` logger at Trace level that really formats every record (into a byte count): a client
/// that turns on trace logging must get the same guarantees (C19: no panic; C20: no stack growth)
/// from whatever the engine logs.
struct CountingLogger;
pub static LOGGED_BYTES: std::sync::atomic::AtomicU64 = std::sync::atomic::AtomicU64::new(0);
impl log::Log for CountingLogger {
    fn enabled(&self, _: &log::Metadata) -> bool {
        true
    }
    fn log(&self, record: &log::Record) {
        use std::fmt::Write;
        struct Count(u64);
        impl Write for Count {
            fn write_str(&mut self, s: &str) -> std::fmt::Result {
                self.0 += s.len() as u64;
                Ok(())
            }
        }
        let mut c = Count(0);
        let _ = write!(c, "{}", record.args());
        LOGGED_BYTES.fetch_add(c.0, std::sync::atomic::Ordering::Relaxed);
    }
    fn flush(&self) {}
}
pub fn install_trace_logger() {
    static L: CountingLogger = CountingLogger;
    if log::set_logger(&L).is_ok() {
        log::set_max_level(log::LevelFilter::Trace);
    }
}
