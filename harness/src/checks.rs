//! Per-property check plans for the game-driven monitors (C01–C08, C10, C12–C14).

use crate::driver::*;
use crate::mon_rules::*;
use crate::mon_state::*;
use crate::runner::*;
use crate::sink::Sink;
use crate::workloads::*;
use serde_json::Map;

pub struct Mix {
    pub w1: (u64, u64),
    pub w2: (u64, u64),
    pub w3: (u64, u64),
    pub w5: (u64, u64),
    pub w5b: (u64, u64),
    /// W5c long cyclers: (games quick, games thorough), not multiplied
    pub w5c: (u64, u64),
    /// W5d take-back cyclers
    pub w5d: (u64, u64),
    /// W7c setup + cycler from the first play position
    pub w7c: (u64, u64),
    pub w7: (u64, u64),
    /// W4c barely mobile movers, one turn each (games quick, games thorough), not multiplied
    pub w4c: (u64, u64),
    /// W5e null turns on wide-open positions (games quick, games thorough), not multiplied
    pub w5e: (u64, u64),
    pub max_turns: u32,
    pub long_w3: (u64, u64), // extra W3 games with 2000-turn cap
    pub text_per_mille: u32,
    pub tree_per_mille: u32,
    pub sweep2: bool,
    /// 3-piece sweep: sample modulus (quick, thorough); 0 = off
    pub sweep3: (u64, u64),
    pub sweep_depth: u32,
    pub sweep4_thorough: bool,
}
impl Default for Mix {
    fn default() -> Self {
        Mix { w1: (0, 0), w2: (0, 0), w3: (0, 0), w5: (0, 0), w5b: (0, 0), w5c: (0, 0), w5d: (0, 0), w7c: (0, 0), w7: (0, 0), w4c: (0, 0), w5e: (0, 0), max_turns: 200, long_w3: (0, 0), text_per_mille: 20, tree_per_mille: 0, sweep2: false, sweep3: (0, 0), sweep_depth: 2, sweep4_thorough: false }
    }
}

pub fn run_mix(cfg: &Cfg, mix: &Mix, make: &(dyn Fn() -> Box<dyn Monitor> + Sync)) -> Sink {
    // game counts in the plans below are per worker; quick plans are multiplied by 6, thorough by 20
    let k = if cfg.tier == Tier::Quick { 6 } else { 20 };
    let mix = &Mix { w1: (mix.w1.0 * k, mix.w1.1 * k), w2: (mix.w2.0 * k, mix.w2.1 * k), w3: (mix.w3.0 * k, mix.w3.1 * k), w5: (mix.w5.0 * k, mix.w5.1 * k), w5b: (mix.w5b.0 * k, mix.w5b.1 * k), w7c: (mix.w7c.0 * k, mix.w7c.1 * k), w5d: (mix.w5d.0 * k, mix.w5d.1 * k), w7: (mix.w7.0 * k, mix.w7.1 * k), long_w3: (mix.long_w3.0, mix.long_w3.1), sweep3: (if mix.sweep3.0 > 0 { (mix.sweep3.0 / 4).max(1) } else { 0 }, mix.sweep3.1), ..*mix };
    run_parallel(cfg, |w, sink| {
        let mut mon = make();
        let opts = PlayOpts { max_turns: mix.max_turns, max_actions: mix.max_turns * 4 + 8, tree_per_mille: mix.tree_per_mille, ..PlayOpts::default() };
        let m = mon.as_mut();
        play_family(Family::W1, cfg.n(mix.w1.0, mix.w1.1), cfg.seed, w, mix.text_per_mille, &opts, m, sink);
        play_family(Family::W2, cfg.n(mix.w2.0, mix.w2.1), cfg.seed, w, mix.text_per_mille, &opts, m, sink);
        let opts3 = PlayOpts { max_turns: mix.max_turns.max(400), max_actions: 4 * mix.max_turns.max(400) + 8, tree_per_mille: mix.tree_per_mille, ..PlayOpts::default() };
        if mix.w3.1 > 0 {
            play_family(Family::W3, cfg.n(mix.w3.0, mix.w3.1), cfg.seed, w, mix.text_per_mille, &opts3, m, sink);
        }
        if mix.w5.1 > 0 {
            play_family(Family::W5, cfg.n(mix.w5.0, mix.w5.1), cfg.seed, w, mix.text_per_mille, &opts3, m, sink);
        }
        if mix.w5b.1 > 0 {
            play_saturated(cfg.n(mix.w5b.0, mix.w5b.1), cfg.seed, w, &opts3, m, sink);
        }
        if mix.w5d.1 > 0 {
            play_takebacks(cfg.n(mix.w5d.0, mix.w5d.1), cfg.seed, w, m, sink);
        }
        if mix.w5e.1 > 0 {
            play_null_turns(cfg.n(mix.w5e.0, mix.w5e.1), cfg.seed, w, m, sink);
        }
        if mix.w4c.1 > 0 {
            play_barely_mobile(cfg.n(mix.w4c.0, mix.w4c.1), cfg.seed, w, m, sink);
        }
        if mix.w7c.1 > 0 {
            play_setup_cyclers(cfg.n(mix.w7c.0, mix.w7c.1), cfg.seed, w, m, sink);
        }
        if mix.w5c.1 > 0 {
            let (kmin, kmax) = if cfg.tier == Tier::Quick { (70, 170) } else { (100, 600) };
            play_long_cyclers(cfg.n(mix.w5c.0, mix.w5c.1), kmin, kmax, cfg.seed, w, m, sink);
        }
        if mix.w7.1 > 0 {
            play_family(Family::W7, cfg.n(mix.w7.0, mix.w7.1), cfg.seed, w, 0, &opts, m, sink);
        }
        if mix.long_w3.1 > 0 && cfg.tier.pick(mix.long_w3.0, mix.long_w3.1) > 0 {
            let optl = PlayOpts { max_turns: 2000, max_actions: 8008, ..PlayOpts::default() };
            play_family(Family::W3, cfg.n(mix.long_w3.0, mix.long_w3.1), cfg.seed ^ 0x10, w, 0, &optl, m, sink);
        }
        if mix.sweep2 {
            let types: &[u8] = if cfg.tier == Tier::Thorough { &[0, 1, 2, 5] } else { &[0, 1, 5] };
            sweep(2, types, mix.sweep_depth, w, cfg.workers, 1, cfg.seed, m, sink);
        }
        let s3 = cfg.tier.pick(mix.sweep3.0, mix.sweep3.1);
        if s3 > 0 {
            sweep(3, &[0, 1, 5], mix.sweep_depth, w, cfg.workers, s3, cfg.seed, m, sink);
        }
        if mix.sweep4_thorough && cfg.tier == Tier::Thorough {
            // sampled "local 3 + 1 anywhere" is approximated by the 3-piece sweep with 4 types
            sweep(3, &[0, 1, 3, 5], mix.sweep_depth, w, cfg.workers, 7, cfg.seed ^ 4, m, sink);
        }
        mon.finish(sink);
    })
}

fn base_report(evals: &'static str, rule: &str, floors: Vec<Floor>) -> Report {
    Report {
        evaluations_counter: evals,
        rule: rule.to_string(),
        assumptions: vec![
            "the reference rules model (harness/src/model.rs) states the Arimaa rules as the property words them".into(),
            "coverage is what the seeded workloads reached; nothing is claimed about unvisited states".into(),
            "engine built from /repo's working tree with overflow checks and debug assertions on".into(),
        ],
        floors,
        level: "exploration",
        exhaustive: None,
        extra: Map::new(),
        inconclusive: vec![],
    }
}

pub fn c01(cfg: &Cfg) -> i32 {
    let mix = Mix { w1: (700, 20000), w2: (700, 20000), w3: (200, 4000), w5b: (60, 1200), w5d: (60, 1200), w7: (20, 400), tree_per_mille: 5, sweep2: true, sweep3: (16, 1), sweep4_thorough: true, ..Mix::default() };
    let sink = run_mix(cfg, &mix, &|| Box::new(C01::default()));
    let floors = vec![
        floor("states_judged", 300_000, 3_000_000),
        floor("states_step0_pend_none", 1000, 10000),
        floor("states_step1_pend_pull", 1000, 10000),
        floor("states_step1_pend_push", 1000, 10000),
        floor("states_step2_pend_push", 1000, 10000),
        floor("states_step3_pend_push", 1000, 10000),
        floor("states_step3_pend_pull", 1000, 10000),
        floor("states_step3_pend_none", 1000, 10000),
        floor("push_starts", 10_000, 100_000),
        floor("pull_completions", 1000, 10_000),
        floor("push_type_pairs_seen_of_15", 15, 15),
        floor("pull_type_pairs_seen_of_15", 15, 15),
        floor("states_with_frozen_mover_piece", 1000, 10_000),
        floor("pending_push_with_two_or_more_completers", 100, 1000),
    ];
    conclude(cfg, sink, base_report("states_judged", "W1 random / W2 cluster / W3 endgame / W7 setup-then-play games with 6 policies, full turn trees at sampled turn starts (W8), plus bounded-exhaustive 2-piece and local 3-piece sweeps to depth 2 (W6); at every state the rule-only action list is compared as a set with the reference model's legal set. distinct_nontrivial = distinct (board, side, step, pending status) with a frozen mover piece or a pending push/pull.", floors))
}

pub fn c02(cfg: &Cfg) -> i32 {
    let mix = Mix { w1: (700, 20000), w2: (900, 25000), w3: (100, 2000), w7: (20, 400), tree_per_mille: 5, sweep2: true, sweep3: (16, 1), ..Mix::default() };
    let sink = run_mix(cfg, &mix, &|| Box::new(C02::default()));
    let mut floors = vec![floor("transitions_judged", 300_000, 3_000_000), floor("captures", 5000, 50_000), floor("steps_onto_trap_with_support", 1000, 10_000), floor("passes_judged", 1000, 10_000)];
    for tr in ["c6", "f6", "c3", "f3"] {
        for col in ["gold", "silver"] {
            for cause in ["stepped_in", "supporter_left", "displaced_in", "supporter_displaced"] {
                let name: &'static str = Box::leak(format!("capture_{}_{}_{}", tr, col, cause).into_boxed_str());
                floors.push(floor(name, 20, 200));
            }
        }
    }
    conclude(cfg, sink, base_report("transitions_judged", "same games and sweeps as C01; after every offered action the 64-square content decoded from the engine's bitboards is compared with the reference model's apply + capture. distinct_nontrivial = distinct (board, action) pairs whose application captured a piece.", floors))
}

pub fn c03(cfg: &Cfg) -> i32 {
    let mix = Mix { w1: (800, 25000), w2: (400, 10000), w3: (300, 8000), w5: (100, 2000), w7: (40, 800), ..Mix::default() };
    let sink = run_mix(cfg, &mix, &|| Box::new(C03::default()));
    let mut floors = vec![floor("transitions_judged", 300_000, 3_000_000)];
    for k in ["pass_at_step1", "pass_at_step2", "pass_at_step3", "fourth_step"] {
        for col in ["gold", "silver"] {
            for cap in ["with_capture", "no_capture"] {
                let name: &'static str = Box::leak(format!("turn_end_{}_{}_{}", k, col, cap).into_boxed_str());
                floors.push(floor(name, if cap == "with_capture" { 100 } else { 1000 }, if cap == "with_capture" { 1000 } else { 10000 }));
            }
        }
    }
    conclude(cfg, sink, base_report("transitions_judged", "W1/W2/W3/W5/W7 games from parsed, injected and set-up starts with start move numbers 1, 2, up to 10^6; after every offered action (side, step, move number) is compared with shadow counters, and every turn start is checked for a fresh per-turn record. distinct_nontrivial = distinct (turn-start board, turn-end board, end kind, colour).", floors))
}

pub fn c05(cfg: &Cfg) -> i32 {
    // a seventh of the games ask play states for the offered list only (the monitor does not use the rule-only list)
    crate::driver::OFFERED_ONLY_PER_MILLE.store(150, std::sync::atomic::Ordering::Relaxed);
    let mix = Mix { w1: (200, 5000), w3: (1200, 30000), w5: (1200, 30000), w5b: (150, 4000), w5c: (8, 200), w5d: (300, 6000), w7c: (40, 800), w7: (10, 200), w5e: (20_000, 600_000), long_w3: (0, 60), max_turns: 200, ..Mix::default() };
    let sink = run_mix(cfg, &mix, &|| Box::new(C05::default()));
    let floors = vec![
        floor("turn_ends_judged", 200_000, 2_000_000),
        floor("second_occurrences", 5000, 50_000),
        floor("attempt_pass_unchanged", 500, 5000),
        floor("attempt_step4_unchanged", 500, 5000),
        floor("attempt_pass_third", 500, 5000),
        floor("attempt_step4_third", 100, 1000),
        floor("turn_ends_after_capture_in_turn", 100, 1000),
        floor("long_cycler_scripts_built", 40, 1000),
        floor("setup_cycler_scripts_built", 500, 10_000),
        floor("takeback_scripts_takeback_by_fourth_step", 100, 2000),
        floor("takeback_scripts_takeback_by_pass", 1000, 20_000),
        floor("null_turn_scripts", 100_000, 3_000_000),
        floor("games_on_the_offered_only_diet", 5000, 100_000),
        floor("third_repetition_attempts_after_turn_256", 20, 500),
        floor("longest_game_turns", 400, 1500),
    ];
    conclude(cfg, sink, base_report("turn_ends_judged", "W3 reverser endgames, W5 scripted cyclers (each cycle played three times so that third repetitions are attempted by pass and by fourth step), W5b saturated scripts, W5c long cyclers (a 4-turn cycle, an out-walk of up to 170 (quick) / 600 (thorough) rounds and the exact walk back, so that a third occurrence is attempted 4k+4 turns after the first), W1 and W7 games, all played through valid_actions() only; at every turn end the resulting exact board is compared with the turn-start board and counted in a never-cleared exact-board history. distinct_nontrivial = distinct (board, side) reached as a second occurrence.", floors))
}

pub fn c06(cfg: &Cfg) -> i32 {
    let mix = Mix { w1: (300, 8000), w2: (200, 5000), w3: (1200, 30000), w5: (1200, 30000), w5b: (150, 4000), w5c: (8, 200), w5d: (300, 6000), w7c: (40, 800), w7: (10, 200), w5e: (10_000, 300_000), long_w3: (0, 60), ..Mix::default() };
    let sink = run_mix(cfg, &mix, &|| Box::new(C06::default()));
    let floors = vec![
        floor("states_judged", 300_000, 3_000_000),
        floor("states_where_lists_differ", 20_000, 200_000),
        floor("states_after_capture_in_turn", 2000, 20_000),
        floor("withheld_pass_unchanged", 500, 5000),
        floor("withheld_step4_unchanged", 500, 5000),
        floor("withheld_pass_third", 500, 5000),
        floor("withheld_step4_third", 100, 1000),
        floor("states_at_step3", 20_000, 200_000),
    ];
    conclude(cfg, sink, base_report("states_judged", "same families as C05; at every state valid_actions() is compared, in order, with valid_actions_no_rep() minus exactly the turn-ending actions whose result (model apply) equals the turn-start board or has two earlier occurrences in the never-cleared exact-board history. distinct_nontrivial = distinct states at which the two lists differ.", floors))
}

pub fn c07(cfg: &Cfg) -> i32 {
    let mix = Mix { w1: (300, 8000), w2: (200, 5000), w3: (2000, 50000), w5: (800, 20000), w5b: (300, 8000), w5c: (4, 100), w5d: (150, 3000), w7c: (20, 400), w7: (40, 800), w4c: (20_000, 1_000_000), ..Mix::default() };
    let sink = run_mix(cfg, &mix, &|| Box::new(C07::default()));
    let floors = vec![floor("states_judged", 300_000, 3_000_000), floor("barely_mobile_positions_played", 50_000, 2_000_000), floor("dead_end_pending_push_all_completions_withheld", 20, 400), floor("states_can_pass_true_ne_false", 10_000, 100_000), floor("setup_states_judged", 10_000, 100_000), floor("dead_end_every_turn_ender_withheld", 150, 4000), floor("saturated_scripts_only_pull_left", 2000, 50_000), floor("saturated_scripts_dead_end", 500, 12_000), floor("saturated_scripts_dead_end_beside_pushable_enemy", 200, 5_000), floor("dead_end_with_a_pull_among_the_withheld", 500, 12_000), floor("dead_end_pending_push_completion_is_third_repetition", 500, 12_000)];
    conclude(cfg, sink, base_report("states_judged", "W3/W5 repetition-heavy games and W5b saturated-neighbourhood scripts (a lone mobile piece visits a square and all its neighbours twice, then returns: at step 3 the pass and every own step are withheld, leaving either nothing or only a pull), W1/W2/W7 games; at every setup and play state is_terminal, valid_actions, valid_actions_no_rep, can_pass(true/false) and has_move are cross-checked. distinct_nontrivial = distinct mid-turn dead ends plus distinct states where can_pass(true) != can_pass(false).", floors))
}

pub fn c08(cfg: &Cfg) -> i32 {
    let mix = Mix { w1: (600, 20000), w2: (600, 20000), w3: (400, 10000), w5: (200, 5000), w5b: (50, 1000), w5c: (2, 40), w7c: (30, 600), w7: (60, 1500), sweep2: true, ..Mix::default() };
    let sink = run_mix(cfg, &mix, &|| Box::new(C08::new()));
    let mut floors = vec![floor("states_judged", 300_000, 3_000_000), floor("turn_changes_by_pass", 5000, 50_000), floor("turn_changes_by_fourth_step", 5000, 50_000), floor("transposition_pairs_different_paths", 10_000, 100_000), floor("setup_completions_compared_with_parse", 500, 10_000), floor("history_entries_checked", 100_000, 1_000_000)];
    for tr in ["c6", "f6", "c3", "f3"] {
        for col in ["gold", "silver"] {
            let name: &'static str = Box::leak(format!("captures_{}_{}", tr, col).into_boxed_str());
            floors.push(floor(name, 500, 5000));
        }
    }
    #[cfg(feature = "hooks")]
    floors.push(floor("hook_observations", 100_000, 1_000_000));
    let mut rep = base_report("states_judged", "W1/W2/W3/W5/W7 games and the 2-piece sweep; at every play state transposition_hash() is compared with two from-scratch routes (Zobrist::from_piece_board on the engine's board; xor of value tables read off the incremental API over the decoded board), every recorded history entry must be the from-scratch hash of a turn start of this game, the stored turn-start hash is read through the verif-hooks getter, states with equal (board, side, step) reached by different paths must compare and std-hash equal, and every finished setup is compared with the parsed diagram. distinct_nontrivial = distinct states with a pending status or after a capture in the turn.", floors);
    rep.extra.insert("hook_compiled_in".into(), serde_json::json!(cfg!(feature = "hooks")));
    rep.extra.insert("hash_table_route".into(), serde_json::json!(crate::mon_state::HASH_TABLE_ROUTE));
    conclude(cfg, sink, rep)
}

pub fn c10(cfg: &Cfg) -> i32 {
    let mix = Mix { w1: (300, 8000), w2: (300, 8000), w3: (50, 1000), w7: (150, 4000), text_per_mille: 300, ..Mix::default() };
    let sink = run_mix(cfg, &mix, &|| Box::new(C10::new()));
    let floors = vec![floor("states_judged", 100_000, 1_000_000), floor("setup_states_judged", 30_000, 300_000), floor("square_x_piece_kind_cells_seen_of_768", 760, 768)];
    conclude(cfg, sink, base_report("states_judged", "every setup and play state of W1/W2/W3/W7 games (30% of the starts enter as harness-printed text): raw bitboards, the four accessors, square lookup by square text, and the printed diagram cell by cell must describe one position with bit i = file i mod 8, rank 8 - i div 8, counts within the complement and no unsupported trap piece once an action has been applied. distinct_nontrivial = distinct boards.", floors))
}

pub fn c12(cfg: &Cfg) -> i32 {
    let mix = Mix { w1: (700, 20000), w2: (900, 25000), w3: (100, 2000), w5b: (120, 2400), w5d: (100, 2000), w7: (20, 400), tree_per_mille: 5, sweep2: true, sweep3: (16, 1), ..Mix::default() };
    let sink = run_mix(cfg, &mix, &|| Box::new(C12::default()));
    let mut floors = vec![floor("states_judged", 300_000, 3_000_000), floor("pull_completions_that_could_have_been_push_starts", 1000, 10_000), floor("own_steps_completing_a_push", 10_000, 100_000), floor("rabbit_steps", 10_000, 100_000), floor("pull_status_squares_seen_of_64", 64, 64), floor("push_status_squares_seen_of_64", 64, 64)];
    for t in ["c", "d", "h", "m", "e"] {
        let name: &'static str = Box::leak(format!("status_pull_by_{}", t).into_boxed_str());
        floors.push(floor(name, 1000, 10_000));
    }
    for t in ["r", "c", "d", "h", "m"] {
        let name: &'static str = Box::leak(format!("status_push_of_{}", t).into_boxed_str());
        floors.push(floor(name, 500, 5000));
    }
    conclude(cfg, sink, base_report("states_judged", "same games, turn trees and sweeps as C01; at every state push_pull_state() is compared with the status computed by the model's own automaton from the history of the turn, and while a push is pending the rule-only list is compared with the model's completions. distinct_nontrivial = distinct states with a pending status.", floors))
}

pub fn c13(cfg: &Cfg) -> i32 {
    let mix = Mix { w1: (300, 8000), w2: (500, 12000), w3: (50, 1000), w7: (20, 400), sweep2: true, sweep3: (16, 1), ..Mix::default() };
    let sink = run_mix(cfg, &mix, &|| Box::new(C13::default()));
    let mut floors = vec![floor("previews_judged", 1_000_000, 10_000_000), floor("previews_some", 10_000, 100_000), floor("previews_for_pass_or_placement", 10_000, 100_000)];
    for tr in ["c6", "f6", "c3", "f3"] {
        for col in ["gold", "silver"] {
            for cause in ["stepped_in", "supporter_left", "displaced_in", "supporter_displaced"] {
                let name: &'static str = Box::leak(format!("preview_{}_{}_{}", tr, col, cause).into_boxed_str());
                floors.push(floor(name, 20, 200));
            }
        }
    }
    conclude(cfg, sink, base_report("previews_judged", "for every state of W1 (capture-seeker among the policies) / W2 / W3 / W7 games and the W6 sweeps and every action in the rule-only list (a superset of the offered list), trapped_animal_for_action is compared with the one piece missing from the engine's own board after take_action. distinct_nontrivial = distinct (board, action) with a non-empty preview.", floors))
}

pub fn c14(cfg: &Cfg) -> i32 {
    let mix = Mix { w1: (700, 20000), w2: (700, 20000), w3: (200, 4000), w7: (20, 400), tree_per_mille: 10, ..Mix::default() };
    let sink = run_mix(cfg, &mix, &|| Box::new(C14::default()));
    let floors = vec![floor("states_after_1_steps", 100_000, 1_000_000), floor("states_after_2_steps", 100_000, 1_000_000), floor("states_after_3_steps", 100_000, 1_000_000), floor("states_in_turns_with_capture", 5000, 50_000), floor("stored_board_words_compared", 300_000, 3_000_000)];
    let mut rep = base_report("states_after_1_steps", "W1/W2/W3/W7 games plus full turn trees at sampled turn starts; at every state piece_board_for_step(i) for 0 <= i <= k is decoded and compared with the board the observer recorded after i steps of this turn, through the per-piece views and word by word (gold, six type words, occupancy). distinct_nontrivial = distinct mid-turn (state, turn-start board) pairs.", floors);
    rep.evaluations_counter = "states_after_1_steps";
    conclude(cfg, sink, rep)
}

pub fn merge_into(total: &mut Sink, part: Sink) {
    total.merge(part);
}
