//! Monitors C09 (setup), C15 (print/parse round trip), C19 (no panic).

use crate::driver::*;
use crate::eng::*;
use crate::model::*;
use crate::mon_rules::state_text;
use crate::record::GameRecord;
use crate::sink::Sink;
use arimaa_engine_step::*;
use serde_json::json;

fn vec_index(v: [u8; 6]) -> usize {
    // mixed radix over (r 0..8, c 0..2, d 0..2, h 0..2, m 0..1, e 0..1)
    let radix = [9usize, 3, 3, 3, 2, 2];
    let mut idx = 0;
    for s in 0..6 {
        idx = idx * radix[s] + v[s] as usize;
    }
    idx
}

// ---------------------------------------------------------------------------------------------
/// C09 — setup places 16 pieces per side on home ranks in fixed order, then play starts.
#[derive(Default)]
pub struct C09 {
    states: u64,
    transitions: u64,
    completions: u64,
}
impl Monitor for C09 {
    fn on_setup_state(&mut self, o: &SetupObs, s: &mut Sink) {
        self.states += 1;
        let m = o.model;
        let mut set = ActSet::new();
        let mut dup = false;
        for c in o.offered_codes {
            if *c == u16::MAX || !set.insert(*c) {
                dup = true;
            }
        }
        if dup {
            s.violate_game("C09", "duplicate_or_unknown_placement_offered", o.rec, format!("offered={:?}", o.offered));
        }
        let exp = m.offered();
        if set != exp {
            s.violate_game("C09", "offered_placements_ne_remaining_complement", o.rec, format!("offered={} expected={} placed={} side={}", set.text(), exp.text(), m.placed, if m.gold { 'g' } else { 's' }));
        }
        if codes_of(o.norep) != o.offered_codes {
            s.violate_game("C09", "norep_list_differs_in_setup", o.rec, String::new());
        }
        let r = guard("setup getters", || (o.g.is_play_phase(), o.g.is_p1_turn_to_move(), o.g.move_number(), decode_board(o.g.piece_board())));
        if let Ok((play, gold, mv, b)) = r {
            if play || gold != m.gold || mv != 1 {
                s.violate_game("C09", "phase_side_or_move_number_during_setup", o.rec, format!("is_play_phase={} gold_to_move={} (expected {}) move_number={} (expected 1) placed={}", play, gold, m.gold, mv, m.placed));
            }
            if b != m.board {
                s.violate_game("C09", "board_during_setup", o.rec, format!("engine={} expected={}", b.compact(), m.board.compact()));
            }
        }
        s.bit(if m.gold { "gold_count_vectors_seen_of_971" } else { "silver_count_vectors_seen_of_971" }, vec_index(m.count_vector(m.gold)));
        s.distinct(mix(m.board.fingerprint(), m.placed as u64));
    }
    fn on_setup_transition(&mut self, t: &SetupTrans, s: &mut Sink) {
        self.transitions += 1;
        let m = t.model_after;
        let r = guard("after placement", || {
            let b = decode_board(t.after.piece_board());
            let play = t.after.is_play_phase();
            let gold = t.after.is_p1_turn_to_move();
            let mv = t.after.move_number();
            let extra = if play {
                let pp = t.after.unwrap_play_phase();
                Some((t.after.current_step(), pp.push_pull_state(), pp.previous_piece_boards().len(), pp.hash_history().len()))
            } else {
                None
            };
            (b, play, gold, mv, extra)
        });
        let (b, play, gold, mv, extra) = match r {
            Ok(x) => x,
            Err(_) => return,
        };
        if b != m.board {
            let sq = t.model_before.next_square();
            s.violate_game("C09", "placement_square_or_piece", t.rec, format!("placed {} as placement #{} (expected on {}): engine={} expected={}", LETTERS[t.strength as usize], m.placed, sq_text(sq), b.compact(), m.board.compact()));
        }
        let exp_play = m.done();
        if play != exp_play {
            s.violate_game("C09", "phase_switch", t.rec, format!("after placement #{} is_play_phase={} expected={}", m.placed, play, exp_play));
        }
        if gold != m.gold {
            s.violate_game("C09", "side_after_placement", t.rec, format!("after placement #{} gold_to_move={} expected={}", m.placed, gold, m.gold));
        }
        let exp_mv = if exp_play { 2 } else { 1 };
        if mv != exp_mv {
            s.violate_game("C09", "move_number_after_placement", t.rec, format!("after placement #{} move_number={} expected={}", m.placed, mv, exp_mv));
        }
        if let Some((step, pps, prev, hist)) = extra {
            self.completions += 1;
            if step != 0 || pps != PushPullState::None || prev != 0 {
                s.violate_game("C09", "play_start_not_fresh", t.rec, format!("step={} status={:?} previous_boards={}", step, pps, prev));
            }
            if hist != 1 {
                s.violate_game("C09", "play_start_history", t.rec, format!("history length {} (expected 1: the start position)", hist));
            }
            if s.want_sample() {
                s.sample(json!({"placements": t.rec.start_text(), "final_board": b.compact()}));
            }
        }
    }
    fn finish(&mut self, s: &mut Sink) {
        s.add("setup_states_judged", self.states);
        s.add("placements_judged", self.transitions);
        s.add("setups_completed", self.completions);
        s.declare_bits("gold_count_vectors_seen_of_971");
        s.declare_bits("silver_count_vectors_seen_of_971");
    }
}

// ---------------------------------------------------------------------------------------------
/// C15 (a) — printing and parsing positions round-trips.
#[derive(Default)]
pub struct C15 {
    states: u64,
    setup_states: u64,
    turn_start_hash_compared: u64,
    max_moveno: u64,
}
impl C15 {
    fn check(&mut self, rec: &GameRecord, g: &GameState, board: &MBoard, gold: bool, moveno: u64, hash_expected: bool, s: &mut Sink) {
        let printed = match guard("GameState::to_string", || g.to_string()) {
            Ok(p) => p,
            Err(p) => {
                s.violate_game("C15", "printing_panicked", rec, format!("{} {}", p.site, p.msg));
                return;
            }
        };
        let own = board.to_text(gold, moveno);
        if printed != own {
            s.violate_game("C15", "printed_form_ne_independent_rendering", rec, format!("engine:\n{}\nexpected:\n{}", printed, own));
            return;
        }
        // every sixteenth state: malformed relatives of the printed text are parsed first (each must be rejected
        // or accepted without unwinding; what matters here is that a failed parse leaves nothing behind)
        if self.states % 16 == 0 {
            let lines: Vec<&str> = printed.lines().collect();
            let mut hostile: Vec<String> = vec![];
            if lines.len() >= 10 {
                // a surplus rank holding pieces below rank 1; two surplus ranks, the first empty; a surplus file
                let mut a: Vec<String> = lines.iter().map(|l| l.to_string()).collect();
                a.insert(10.min(a.len() - 1), " 0| E r C d     |".to_string());
                hostile.push(a.join("\n"));
                let mut b: Vec<String> = lines.iter().map(|l| l.to_string()).collect();
                b.insert(10.min(b.len() - 1), " 0|                 |".to_string());
                b.insert(11.min(b.len() - 1), "-1|   M           r |".to_string());
                hostile.push(b.join("\n"));
                let c: Vec<String> = lines.iter().enumerate().map(|(i, l)| if i == 2 { format!("{} R h", l.trim_end_matches('|')) + " |" } else { l.to_string() }).collect();
                hostile.push(c.join("\n"));
                hostile.push(printed.replacen('g', "x", 1).replacen(char::is_numeric, "99999999999999999999999", 1));
                // ANOTHER arrangement (the ranks in reverse order) followed by a surplus rank with a piece: rejected,
                // after the parser has already seen pieces on squares where this state has none
                let mut d: Vec<String> = vec![lines[0].to_string(), lines[1].to_string()];
                for r in (2..10).rev() {
                    d.push(lines[r].to_string());
                }
                d.push("0| r   E           |".to_string());
                d.push(lines[10].to_string());
                hostile.push(d.join("\n"));
            }
            for h in &hostile {
                if let Err(p) = parse_state(h) {
                    s.violate_game("C15", "parser_panicked_on_malformed_relative", rec, format!("{} {}\n{}", p.site, p.msg, h));
                }
                s.count("malformed_relatives_parsed_before_round_trip");
            }
        }
        match parse_state(&printed) {
            Err(p) => s.violate_game("C15", "parser_panicked_on_printed_state", rec, format!("{} {}\n{}", p.site, p.msg, printed)),
            Ok(Err(e)) => s.violate_game("C15", "printed_state_rejected", rec, format!("{}\n{}", e, printed)),
            Ok(Ok(p)) => {
                let r = guard("parsed getters", || {
                    let pp = p.unwrap_play_phase();
                    (decode_board(p.piece_board()), p.is_p1_turn_to_move(), p.move_number() as u64, p.current_step(), pp.push_pull_state(), pp.previous_piece_boards().len(), p.to_string(), p.transposition_hash(), g.transposition_hash(), p.is_play_phase())
                });
                match r {
                    Err(pi) => s.violate_game("C15", "parsed_state_query_panicked", rec, format!("{} {}", pi.site, pi.msg)),
                    Ok((b, pg, pm, step, pps, prev, again, hp, hg, _play)) => {
                        if b != *board || pg != gold || pm != moveno {
                            s.violate_game("C15", "parsed_board_side_or_move_number", rec, format!("parsed board={} side={} move={} / original board={} side={} move={}", b.compact(), pg, pm, board.compact(), gold, moveno));
                        }
                        if step != 0 || pps != PushPullState::None || prev != 0 {
                            s.violate_game("C15", "parsed_state_not_turn_start", rec, format!("step={} status={:?}", step, pps));
                        }
                        if again != printed {
                            s.violate_game("C15", "reprint_differs", rec, format!("first:\n{}\nsecond:\n{}", printed, again));
                        }
                        if hash_expected {
                            self.turn_start_hash_compared += 1;
                            if hp != hg {
                                s.violate_game("C15", "turn_start_hash_differs_after_round_trip", rec, format!("original={:#018x} parsed={:#018x}", hg, hp));
                            }
                        }
                    }
                }
            }
        }
        self.max_moveno = self.max_moveno.max(moveno);
    }
}
impl Monitor for C15 {
    fn on_setup_state(&mut self, o: &SetupObs, s: &mut Sink) {
        self.setup_states += 1;
        if let Ok((b, gold, mv)) = guard("getters", || (decode_board(o.g.piece_board()), o.g.is_p1_turn_to_move(), o.g.move_number() as u64)) {
            self.check(o.rec, o.g, &b, gold, mv, false, s);
        }
    }
    fn on_state(&mut self, o: &Obs, s: &mut Sink) {
        self.states += 1;
        let sh = o.sh;
        self.check(o.rec, o.g, &sh.board, sh.gold, sh.moveno, sh.step == 0, s);
        s.distinct(mix(sh.board.fingerprint(), sh.moveno * 2 + sh.gold as u64));
        if s.want_sample() && self.states % 2003 == 0 {
            s.sample(json!({"start": o.rec.start_text(), "actions": o.rec.actions_text(), "printed": sh.board.to_text(sh.gold, sh.moveno)}));
        }
    }
    fn finish(&mut self, s: &mut Sink) {
        s.add("play_states_round_tripped", self.states);
        s.add("setup_states_round_tripped", self.setup_states);
        s.add("turn_start_hashes_compared", self.turn_start_hash_compared);
        s.max("max_move_number_printed", self.max_moveno);
    }
}

// ---------------------------------------------------------------------------------------------
/// C19 — no public query or offered action panics on a reachable state.
#[derive(Default)]
pub struct C19 {
    states: u64,
    setup_states: u64,
    calls: u64,
    push_of: [u64; 6],
    pull_by: [u64; 6],
    rabbit_steps: u64,
}
impl C19 {
    fn report(&self, rec: &GameRecord, p: &PanicInfo, s: &mut Sink) {
        let sig = format!("C19|panic|{}@{}|{}", p.api, p.site, rec.signature());
        let mut w = rec.to_json();
        w["api"] = json!(p.api);
        w["site"] = json!(p.site);
        w["message"] = json!(p.msg);
        s.violate("C19", "engine_call_panicked", sig, format!("api={} site={} msg={:?}", p.api, p.site, p.msg), w);
    }
}
macro_rules! call {
    ($self:ident, $rec:expr, $s:ident, $api:literal, $e:expr) => {{
        $self.calls += 1;
        match guard($api, || $e) {
            Ok(v) => Some(v),
            Err(p) => {
                $self.report($rec, &p, $s);
                None
            }
        }
    }};
}
impl Monitor for C19 {
    fn on_panic(&mut self, rec: &GameRecord, p: &PanicInfo, s: &mut Sink) {
        self.report(rec, p, s);
    }
    fn on_setup_state(&mut self, o: &SetupObs, s: &mut Sink) {
        self.setup_states += 1;
        let g = o.g;
        call!(self, o.rec, s, "can_pass(true)", g.can_pass(true));
        call!(self, o.rec, s, "can_pass(false)", g.can_pass(false));
        call!(self, o.rec, s, "has_move", g.has_move(g.piece_board()));
        call!(self, o.rec, s, "transposition_hash", g.transposition_hash());
        call!(self, o.rec, s, "to_string", g.to_string());
        call!(self, o.rec, s, "is_play_phase", g.is_play_phase());
        call!(self, o.rec, s, "move_number", g.move_number());
        call!(self, o.rec, s, "as_play_phase", g.as_play_phase().is_some());
        call!(self, o.rec, s, "placement_bit", g.piece_board().placement_bit());
        call!(self, o.rec, s, "trapped_piece_bits", g.piece_board().trapped_piece_bits());
        for a in o.offered {
            call!(self, o.rec, s, "trapped_animal_for_action", g.trapped_animal_for_action(a));
            call!(self, o.rec, s, "take_action", g.take_action(a));
        }
        if o.model.placed == 15 || o.model.placed == 31 {
            s.count("setup_states_with_one_square_left");
        }
    }
    fn on_state(&mut self, o: &Obs, s: &mut Sink) {
        self.states += 1;
        let g = o.g;
        let sh = o.sh;
        match sh.pend {
            Pend::Push(_, t) => self.push_of[t as usize] += 1,
            Pend::Pull(_, t) => self.pull_by[t as usize] += 1,
            Pend::None => {}
        }
        call!(self, o.rec, s, "can_pass(true)", g.can_pass(true));
        call!(self, o.rec, s, "can_pass(false)", g.can_pass(false));
        call!(self, o.rec, s, "has_move", g.has_move(g.piece_board()));
        call!(self, o.rec, s, "transposition_hash", g.transposition_hash());
        call!(self, o.rec, s, "to_string", g.to_string());
        call!(self, o.rec, s, "std::hash + eq", {
            use std::hash::{Hash, Hasher};
            let mut h = std::collections::hash_map::DefaultHasher::new();
            g.hash(&mut h);
            (h.finish(), g == g)
        });
        call!(self, o.rec, s, "clone", drop(g.clone()));
        call!(self, o.rec, s, "debug fmt", format!("{:?}", g).len());
        let step = call!(self, o.rec, s, "current_step", g.current_step()).unwrap_or(0);
        for i in 0..=step.min(3) {
            call!(self, o.rec, s, "piece_board_for_step", g.piece_board_for_step(i).all_pieces);
        }
        call!(self, o.rec, s, "PlayPhase getters", {
            let pp = g.unwrap_play_phase();
            (pp.push_pull_state(), pp.previous_piece_boards().len(), pp.piece_trapped_this_turn(), pp.step(), pp.hash_history().len(), pp.hash_history().head().copied(), pp.push_pull_state().as_possible_pull())
        });
        call!(self, o.rec, s, "PieceBoardState accessors", {
            let pb = g.piece_board();
            let mut acc = pb.trapped_piece_bits() ^ pb.player_piece_mask(true) ^ pb.player_piece_mask(false);
            for p in Piece::ALL {
                acc ^= pb.bits_by_piece_type(p) ^ pb.bits_for_piece(p, true) ^ pb.bits_for_piece(p, false);
            }
            for i in 0..64u8 {
                if pb.piece_type_at_square(&Square::from_index(i)).is_some() {
                    acc ^= 1;
                }
            }
            acc
        });
        // every action of the offered list and of the rule-only list (superset)
        for a in o.norep {
            call!(self, o.rec, s, "trapped_animal_for_action", g.trapped_animal_for_action(a));
            let offered = o.rep.contains(a);
            if offered {
                if let Some(ng) = call!(self, o.rec, s, "take_action", g.take_action(a)) {
                    // the successor must be queryable too (cheap subset; it is fully visited if chosen)
                    call!(self, o.rec, s, "successor transposition_hash", ng.transposition_hash());
                    call!(self, o.rec, s, "successor is_terminal", ng.is_terminal());
                }
            }
        }
        if sh.pend != Pend::None {
            s.distinct(sh.fingerprint());
        }
        if s.want_sample() && self.states % 5003 == 0 {
            s.sample(json!({"start": o.rec.start_text(), "actions": o.rec.actions_text(), "state": state_text(sh), "calls_so_far": self.calls}));
        }
    }
    fn on_transition(&mut self, t: &Trans, _s: &mut Sink) {
        if let Some(a) = t.applied {
            if !a.mover_enemy && strength(a.moved_cell) == 0 {
                self.rabbit_steps += 1;
            }
        }
    }
    fn finish(&mut self, s: &mut Sink) {
        s.add("play_states_judged", self.states);
        s.add("setup_states_judged", self.setup_states);
        s.add("guarded_engine_calls", self.calls);
        for t in 0..5 {
            s.add(&format!("states_pending_push_of_{}", LETTERS[t]), self.push_of[t]);
        }
        for t in 1..6 {
            s.add(&format!("states_pending_pull_by_{}", LETTERS[t]), self.pull_by[t]);
        }
        s.add("rabbit_steps", self.rabbit_steps);
        s.add("setup_states_with_one_square_left", 0);
    }
}
