//! Seeded xorshift64* generator. Deterministic given (seed, stream).

#[derive(Clone)]
pub struct Rng(pub u64);

impl Rng {
    pub fn new(seed: u64, stream: u64) -> Rng {
        let mut s = seed
            .wrapping_mul(0x9E37_79B9_7F4A_7C15)
            .wrapping_add(stream.wrapping_mul(0xD1B5_4A32_D192_ED03))
            ^ 0x2545_F491_4F6C_DD1D;
        if s == 0 {
            s = 0x1234_5678_9ABC_DEF1;
        }
        let mut r = Rng(s);
        for _ in 0..8 {
            r.next();
        }
        r
    }
    #[inline]
    pub fn next(&mut self) -> u64 {
        self.0 ^= self.0 << 13;
        self.0 ^= self.0 >> 7;
        self.0 ^= self.0 << 17;
        self.0.wrapping_mul(0x2545_F491_4F6C_DD1D)
    }
    #[inline]
    pub fn below(&mut self, n: usize) -> usize {
        debug_assert!(n > 0);
        ((self.next() >> 11) % n as u64) as usize
    }
    #[inline]
    pub fn chance(&mut self, num: u64, den: u64) -> bool {
        (self.next() >> 11) % den < num
    }
    pub fn pick<'a, T>(&mut self, v: &'a [T]) -> &'a T {
        &v[self.below(v.len())]
    }
    pub fn shuffle<T>(&mut self, v: &mut [T]) {
        for i in (1..v.len()).rev() {
            let j = self.below(i + 1);
            v.swap(i, j);
        }
    }
}
