//! C11 — metamorphic lock-step twin games under file mirror / colour swap + rank flip.

use crate::driver::*;
use crate::eng::*;
use crate::model::*;
use crate::record::*;
use crate::rng::Rng;
use crate::sink::Sink;
use arimaa_engine_step::*;
use serde_json::json;

pub struct TwinStats {
    pub states: [u64; 3],
    pub captures: u64,
    pub withheld_states: u64,
    pub terminals: [u64; 3],
}

fn tname(mirror: bool, flip: bool) -> &'static str {
    match (mirror, flip) {
        (true, false) => "mirror",
        (false, true) => "colour_swap_rank_flip",
        _ => "both",
    }
}

/// Play one twin game. The twin is built from text / constructors of the transformed position;
/// afterwards both games only see actions.
#[allow(clippy::too_many_arguments)]
/// The same queries as `observe`, asked of two states alternately.
fn observe_interleaved(g: &GameState, h: &GameState) -> (Result<Queries, PanicInfo>, Result<Queries, PanicInfo>) {
    let r = (|| -> Result<(Queries, Queries), PanicInfo> {
        let rep_g = guard("valid_actions", || g.valid_actions())?;
        let rep_h = guard("valid_actions", || h.valid_actions())?;
        let norep_g = guard("valid_actions_no_rep", || g.valid_actions_no_rep())?;
        let norep_h = guard("valid_actions_no_rep", || h.valid_actions_no_rep())?;
        let term_g = guard("is_terminal", || g.is_terminal())?;
        let term_h = guard("is_terminal", || h.is_terminal())?;
        let mk = |norep: Vec<Action>, rep: Vec<Action>, term: Option<Terminal>| {
            let norep_codes = codes_of(&norep);
            let rep_codes = codes_of(&rep);
            let pick: Vec<Code> = rep_codes.iter().copied().filter(|c| *c != u16::MAX).collect();
            Queries { norep, norep_codes, rep, rep_codes, pick, term: decode_term(&term) }
        };
        Ok((mk(norep_g, rep_g, term_g), mk(norep_h, rep_h, term_h)))
    })();
    match r {
        Ok((a, b)) => (Ok(a), Ok(b)),
        Err(p) => (Err(PanicInfo { api: p.api, site: p.site.clone(), msg: p.msg.clone() }), Err(p)),
    }
}

pub fn twin_game(rec: &mut GameRecord, mut policy: Policy, max_turns: u32, mirror: bool, flip: bool, rng: &mut Rng, st: &mut TwinStats, sink: &mut Sink) {
    sink.games += 1;
    let (board, gold, moveno, text) = match &rec.start {
        Start::Text { board, gold, moveno } => (*board, *gold, *moveno, true),
        Start::Inject { board, gold, moveno } => (*board, *gold, *moveno, false),
        _ => unreachable!(),
    };
    let tboard = board.transform(mirror, flip);
    let tgold = if flip { !gold } else { gold };
    let mk = |b: &MBoard, g: bool| -> Option<GameState> {
        if text {
            match parse_state(&b.to_text(g, moveno)) {
                Ok(Ok(s)) => Some(s),
                _ => None,
            }
        } else {
            guard("constructors", || inject(b, g, moveno)).ok()
        }
    };
    let (mut g, mut h) = match (mk(&board, gold), mk(&tboard, tgold)) {
        (Some(a), Some(b)) => (a, b),
        _ => {
            sink.games_aborted += 1;
            return;
        }
    };
    let mut sh = Shadow::start(board, gold, moveno);
    let mut script_pos = 0usize;
    let ti = if mirror && flip { 2 } else if flip { 1 } else { 0 };
    let tn = tname(mirror, flip);
    let swap = |t: Option<bool>| if flip { t.map(|x| !x) } else { t };
    let viol = |sink: &mut Sink, rec: &GameRecord, clause: &str, detail: String| {
        let sig = format!("C11|{}|{}|{}", clause, tn, rec.signature());
        let mut w = rec.to_json();
        w["kind"] = json!("twin");
        w["transform"] = json!(tn);
        w["detail"] = json!(detail.clone());
        sink.violate("C11", clause, sig, format!("transform={} {}", tn, detail), w);
    };
    loop {
        // in every other twin game the two states are asked each question back to back (same question, game then
        // image), instead of all questions to the game and then all to the image
        let pair = if rec.index % 2 == 1 { observe_interleaved(&g, &h) } else { (observe(&g), observe(&h)) };
        let (q, qh) = match pair {
            (Ok(a), Ok(b)) => (a, b),
            _ => {
                sink.engine_panics += 1;
                sink.games_aborted += 1;
                return;
            }
        };
        st.states[ti] += 1;
        // boards are images of each other
        let hb = guard("piece_board", || decode_board(h.piece_board())).unwrap_or(tboard);
        if hb != sh.board.transform(mirror, flip) {
            viol(sink, rec, "boards_not_images", format!("game={} twin={}", sh.board.compact(), hb.compact()));
            return;
        }
        if swap(q.term) != qh.term {
            viol(sink, rec, "result_not_swapped", format!("game={} twin={} board={}", term_text(q.term), term_text(qh.term), sh.board.compact()));
        }
        let img = |codes: &[Code]| {
            let mut s = ActSet::new();
            for c in codes {
                if *c != u16::MAX {
                    s.insert(map_code(*c, mirror, flip));
                }
            }
            s
        };
        let a = img(&q.rep_codes);
        let b = ActSet::from_codes(&qh.rep_codes);
        if a != b {
            let only_g: Vec<String> = a.iter().filter(|c| !b.contains(*c)).map(code_text).collect();
            let only_h: Vec<String> = b.iter().filter(|c| !a.contains(*c)).map(code_text).collect();
            viol(sink, rec, "offered_actions_not_images", format!("image-of-game-only=[{}] twin-only=[{}] board={} side={} step={}", only_g.join(" "), only_h.join(" "), sh.board.compact(), sh.gold, sh.step));
        }
        let a2 = img(&q.norep_codes);
        let b2 = ActSet::from_codes(&qh.norep_codes);
        if a2 != b2 {
            viol(sink, rec, "rule_only_actions_not_images", format!("game-image={} twin={} board={}", a2.text(), b2.text(), sh.board.compact()));
        }
        // the same comparison on the saturated twins of both states (the same states in games in which every
        // position a turn-ending action could create began two earlier turns): they are images of each other too
        if sh.step >= 1 && sh.fingerprint() % 4 == 0 {
            let tg = crate::decoy::judged_twins(&g, 2).into_iter().next();
            let th = crate::decoy::judged_twins(&h, 2).into_iter().next();
            if let (Some((_, tg)), Some((_, th))) = (tg, th) {
                if let (Ok(x), Ok(y)) = (observe(&tg), observe(&th)) {
                    sink.count("saturated_twin_pairs_compared");
                    let (a, b) = (img(&x.rep_codes), ActSet::from_codes(&y.rep_codes));
                    if a != b || swap(x.term) != y.term {
                        let only_g: Vec<String> = a.iter().filter(|c| !b.contains(*c)).map(code_text).collect();
                        let only_h: Vec<String> = b.iter().filter(|c| !a.contains(*c)).map(code_text).collect();
                        viol(sink, rec, "offered_actions_not_images", format!("[on the saturated twins of the two states] image-of-game-only=[{}] twin-only=[{}] results {} / {} board={} side={} step={}", only_g.join(" "), only_h.join(" "), term_text(x.term), term_text(y.term), sh.board.compact(), sh.gold, sh.step));
                    }
                }
            }
        }
        if q.rep_codes.len() != q.norep_codes.len() {
            st.withheld_states += 1;
            sink.distinct(mix(sh.fingerprint(), 11));
        }
        if sh.step == 0 && q.term.is_some() {
            st.terminals[ti] += 1;
            break;
        }
        if q.rep.is_empty() || sh.turns >= max_turns {
            break;
        }
        let code = match choose(&mut policy, &mut script_pos, rng, &q, &sh) {
            Some(c) => c,
            None => break,
        };
        let tcode = map_code(code, mirror, flip);
        // capture previews are images
        let pa = guard("trapped_animal_for_action", || g.trapped_animal_for_action(&code_act(code)).map(|(s, p, gg)| (map_sq(s.index(), mirror, flip), piece_strength(p), if flip { !gg } else { gg })));
        let pb = guard("trapped_animal_for_action", || h.trapped_animal_for_action(&code_act(tcode)).map(|(s, p, gg)| (s.index(), piece_strength(p), gg)));
        if let (Ok(pa), Ok(pb)) = (pa, pb) {
            if pa != pb {
                viol(sink, rec, "captures_not_images", format!("action={} game-image={:?} twin={:?} board={}", code_text(code), pa, pb, sh.board.compact()));
            }
            if pa.is_some() {
                st.captures += 1;
                sink.distinct(mix(sh.fingerprint(), code as u64));
            }
        }
        let out = match step(&g, &sh, code) {
            Ok(o) => o,
            Err(_) => {
                sink.engine_panics += 1;
                sink.games_aborted += 1;
                return;
            }
        };
        if !qh.rep_codes.contains(&tcode) {
            // already reported above as offered_actions_not_images; the twin cannot follow
            rec.actions.push(code);
            break;
        }
        let nh = match guard("take_action", || h.take_action(&code_act(tcode))) {
            Ok(x) => x,
            Err(_) => {
                sink.engine_panics += 1;
                sink.games_aborted += 1;
                return;
            }
        };
        rec.actions.push(code);
        g = out.after;
        sh = out.sh_after;
        h = nh;
    }
    if sink.want_sample() && st.states[ti] % 17 == 0 {
        sink.sample(json!({"transform": tn, "start": rec.start_text(), "actions": rec.actions_text()}));
    }
}
