//! Look-alike decoys. A decoy is a consistent state built with the public constructors that agrees
//! with the monitored state in PART of its description (occupancy and colours, or the type boards,
//! or the hash / turn-start hash / history length / newest history entry) and differs in the rest.
//! While decoys are set (`eng::set_decoys`), every guarded engine call on the monitored state is
//! preceded by the same call on each decoy - so anything the engine remembers from "the previous
//! call" under an incomplete key is served stale to the monitored call, whose answer the monitors
//! judge as usual. The decoys' own answers are never judged.

use crate::eng::*;
use crate::model::*;
use arimaa_engine_step::*;

fn remap(b: &MBoard, f: &dyn Fn(u8) -> u8) -> MBoard {
    let mut o = *b;
    for i in 0..64 {
        if o.0[i] != 0 {
            o.0[i] = f(o.0[i]);
        }
    }
    o
}

fn build(gold: bool, moveno: usize, step: usize, board: &MBoard, prev: &[MBoard], status: PushPullState, trapped: bool, hist: List<Zobrist>) -> GameState {
    let pb = piece_board_of(board);
    let h = Zobrist::from_piece_board(pb.piece_board(), gold, step);
    let first = prev.first().copied().unwrap_or(*board);
    let h0 = Zobrist::from_piece_board(piece_board_of(&first).piece_board(), gold, 0);
    let prevs: Vec<PieceBoard> = prev.iter().map(piece_board_of).collect();
    let pp = PlayPhase::new(h0, hist, prevs, status, trapped);
    GameState::new(gold, moveno, Phase::PlayPhase(pp), pb, h)
}

/// Decoys for a play-phase state (empty for anything else).
pub fn play_decoys(g: &GameState) -> Vec<GameState> {
    decoys_impl(g, true)
}
/// Only the decoys that are the same state with another past (same length, same newest entry).
pub fn history_decoys(g: &GameState) -> Vec<GameState> {
    decoys_impl(g, false)
}
fn decoys_impl(g: &GameState, board_variants: bool) -> Vec<GameState> {
    let r = std::panic::catch_unwind(std::panic::AssertUnwindSafe(|| {
        if !g.is_play_phase() {
            return vec![];
        }
        let pp = g.unwrap_play_phase();
        let gold = g.is_p1_turn_to_move();
        let moveno = g.move_number();
        let step = g.current_step();
        let board = decode_board(g.piece_board());
        let prev: Vec<MBoard> = (0..step).map(|i| decode_board(g.piece_board_for_step(i))).collect();
        let status = pp.push_pull_state();
        let pend = decode_pend(status);
        let trapped = pp.piece_trapped_this_turn();
        let hist: Vec<Zobrist> = pp.hash_history().iter().copied().collect(); // newest first
        let mut out = vec![];
        let rebuild_hist = |entries_newest_first: &[Zobrist]| {
            let mut l = List::new();
            for z in entries_newest_first.iter().rev() {
                l = l.append(*z);
            }
            l
        };
        let same_hist = || pp.hash_history().clone();
        // D1: piece types permuted (cat -> dog -> horse -> cat, camel <-> elephant): same occupancy, same colours
        let perm = |c: u8| -> u8 {
            let g_ = is_gold(c);
            let s = match strength(c) {
                1 => 2,
                2 => 3,
                3 => 1,
                4 => 5,
                5 => 4,
                x => x,
            };
            cell(s, g_)
        };
        let pend_perm = match pend {
            Pend::Push(sq, t) => Pend::Push(sq, match t { 1 => 2, 2 => 3, 3 => 1, 4 => 5, x => x }),
            Pend::Pull(sq, t) => Pend::Pull(sq, match t { 1 => 2, 2 => 3, 3 => 1, 4 => 5, 5 => 4, x => x }),
            Pend::None => Pend::None,
        };
        let p1: Vec<MBoard> = prev.iter().map(|b| remap(b, &perm)).collect();
        if board_variants {
        out.push(build(gold, moveno, step, &remap(&board, &perm), &p1, encode_pend(pend_perm), trapped, same_hist()));
        // D1b: dogs <-> horses only
        let swap = |c: u8| -> u8 {
            match strength(c) {
                2 => cell(3, is_gold(c)),
                3 => cell(2, is_gold(c)),
                _ => c,
            }
        };
        let p1b: Vec<MBoard> = prev.iter().map(|b| remap(b, &swap)).collect();
        out.push(build(gold, moveno, step, &remap(&board, &swap), &p1b, status, trapped, same_hist()));
        // D2a / D2b: the owner of some piece kinds flipped: same type boards, same side to move
        for sel in 0..2 {
            let flip = move |c: u8| -> u8 {
                let s = strength(c);
                let hit = if sel == 0 { s == 1 || s == 2 || s == 0 } else { s >= 3 };
                if hit {
                    cell(s, !is_gold(c))
                } else {
                    c
                }
            };
            let p2: Vec<MBoard> = prev.iter().map(|b| remap(b, &flip)).collect();
            out.push(build(gold, moveno, step, &remap(&board, &flip), &p2, status, trapped, same_hist()));
        }
        // D3: every piece changes owner and the other side is to move (no rank flip): the mover's mask is the same
        let all = |c: u8| -> u8 { cell(strength(c), !is_gold(c)) };
        let p3: Vec<MBoard> = prev.iter().map(|b| remap(b, &all)).collect();
        out.push(build(!gold, moveno, step, &remap(&board, &all), &p3, status, trapped, same_hist()));
        }
        if board_variants {
            // D5: the same state at another move number (not part of the hash, not compared by ==)
            {
                let pb = piece_board_of(&board);
                let h = Zobrist::from_piece_board(pb.piece_board(), gold, step);
                let first = prev.first().copied().unwrap_or(board);
                let h0 = Zobrist::from_piece_board(piece_board_of(&first).piece_board(), gold, 0);
                let prevs: Vec<PieceBoard> = prev.iter().map(piece_board_of).collect();
                out.push(GameState::new(gold, moveno + 3, Phase::PlayPhase(PlayPhase::new(h0, same_hist(), prevs, status, trapped)), pb, h));
            }
            // D6: the same board and side at another step index (3 if it is not 3, else 1)
            {
                let st2 = if step == 3 { 1 } else { 3 };
                let mut pv: Vec<MBoard> = prev.clone();
                pv.truncate(st2);
                while pv.len() < st2 {
                    pv.push(board);
                }
                out.push(build(gold, moveno, st2, &board, &pv, status, trapped, same_hist()));
            }
            // D7: a sibling line of the same turn: the same turn start and step count, one own piece standing one square elsewhere
            if step >= 1 {
                let mut sib = None;
                'find: for i in 0..64usize {
                    let c = board.0[i];
                    if c == 0 || is_gold(c) != gold || strength(c) == 0 {
                        continue;
                    }
                    for k in 0..4u8 {
                        if let Some(j) = nb(i, k) {
                            if board.0[j] == 0 && !TRAPS.contains(&j) {
                                let mut b2 = board;
                                b2.0[j] = c;
                                b2.0[i] = 0;
                                sib = Some(b2);
                                if (i + j + moveno) % 3 == 0 {
                                    break 'find;
                                }
                            }
                        }
                    }
                }
                if let Some(b2) = sib {
                    out.push(build(gold, moveno, step, &b2, &prev, PushPullState::None, trapped, same_hist()));
                }
            }
            // D8: the same board, side, step and status reached from ANOTHER turn start (the earlier boards differ:
            // one piece of the opponent stands one square elsewhere in all of them)
            if step >= 1 {
                let mut alt: Option<(usize, usize)> = None;
                'f2: for i in 0..64usize {
                    let c = prev[0].0[i];
                    if c == 0 || is_gold(c) == gold {
                        continue;
                    }
                    for k in 0..4u8 {
                        if let Some(j) = nb(i, k) {
                            if prev.iter().all(|b| b.0[j] == 0 && b.0[i] == c) && !TRAPS.contains(&j) {
                                alt = Some((i, j));
                                break 'f2;
                            }
                        }
                    }
                }
                if let Some((i, j)) = alt {
                    let pv: Vec<MBoard> = prev
                        .iter()
                        .map(|b| {
                            let mut x = *b;
                            x.0[j] = x.0[i];
                            x.0[i] = 0;
                            x
                        })
                        .collect();
                    out.push(build(gold, moveno, step, &board, &pv, status, trapped, same_hist()));
                }
            }
        }
        // D4: the same state with another past of the same length and the same newest entry
        if hist.len() >= 2 {
            // D4i "forgotten": nothing ever occurred twice
            let mut e = hist.clone();
            for (k, z) in e.iter_mut().enumerate().skip(1) {
                let mut db = MBoard::empty();
                db.0[k % 64] = cell((k / 64 % 6) as u8, k / 384 % 2 == 0);
                db.0[(k * 7 + 13) % 64] = cell(((k / 5) % 6) as u8, true);
                *z = Zobrist::from_piece_board(piece_board_of(&db).piece_board(), k % 2 == 0, 0);
            }
            out.push(build(gold, moveno, step, &board, &prev, status, trapped, rebuild_hist(&e)));
            // D4ii "saturated": the position a pass would create, and every position one own step away, occurred twice
            let mut targets: Vec<Zobrist> = vec![Zobrist::from_piece_board(piece_board_of(&board).piece_board(), !gold, 0)];
            for c in board.legal(gold, step.min(3) as u8, pend).iter() {
                if is_step(c) {
                    if let Some(a) = board.apply(gold, pend, code_sq(c), code_dir(c)) {
                        targets.push(Zobrist::from_piece_board(piece_board_of(&a.board).piece_board(), !gold, 0));
                    }
                }
            }
            let mut e2 = hist.clone();
            let n = e2.len();
            let mut k = 1;
            for t in targets.iter() {
                if k + 1 >= n {
                    break;
                }
                e2[k] = *t;
                e2[k + 1] = *t;
                k += 2;
            }
            if k > 1 {
                out.push(build(gold, moveno, step, &board, &prev, status, trapped, rebuild_hist(&e2)));
            }
        }
        out
    }));
    r.unwrap_or_default()
}

/// Decoys for a setup state reached by the placements `done` (strength codes 0..=5 in placement order:
/// gold's sixteen first, then silver's): the same prefix on top of another arrangement of the side that
/// is already complete, and prefixes in which the count of one piece kind is changed.
pub fn setup_decoys(done: &[u8]) -> Vec<GameState> {
    let r = std::panic::catch_unwind(std::panic::AssertUnwindSafe(|| {
        let t = tables();
        let play = |seq: &[u8]| -> Option<GameState> {
            let mut g = GameState::initial();
            for s in seq {
                if g.is_play_phase() {
                    return None;
                }
                g = g.take_action(&Action::Place(t.piece[*s as usize]));
            }
            if g.is_play_phase() {
                None
            } else {
                Some(g)
            }
        };
        let mut out = vec![];
        let (first, mover): (&[u8], &[u8]) = if done.len() >= 16 { (&done[..16], &done[16..]) } else { (&[], done) };
        // another arrangement of the complete side, same prefix of the mover
        if !first.is_empty() {
            let mut seq: Vec<u8> = first.iter().rev().copied().collect();
            seq.extend_from_slice(mover);
            out.extend(play(&seq));
        } else if mover.len() >= 2 {
            let seq: Vec<u8> = mover.iter().rev().copied().collect();
            out.extend(play(&seq));
        }
        // one count changed
        let mut v = [0usize; 6];
        for s in mover {
            v[*s as usize] += 1;
        }
        for ty in 0..6usize {
            for c in 0..=COMPLEMENT[ty] as usize {
                if c == v[ty] {
                    continue;
                }
                let mut w = v;
                w[ty] = c;
                if w.iter().sum::<usize>() >= 16 {
                    continue; // the side would be complete: not a state of this side's setup
                }
                let mut seq: Vec<u8> = first.to_vec();
                for (k, n) in w.iter().enumerate() {
                    for _ in 0..*n {
                        seq.push(k as u8);
                    }
                }
                out.extend(play(&seq));
            }
        }
        out
    }));
    r.unwrap_or_default()
}


/// Synthetic twins that ARE judged (by the monitors that ask for them): consistent, plausible states built with
/// the public constructors from the monitored state's own description.
///   kind 1 "rebuilt": the very same state, re-assembled from its getters (same history list);
///   kind 2 "saturated": the same state in a game in which every position a turn-ending action could create
///          (the pass and every offered-by-the-rules step, push completion or pull) was the start of two earlier
///          turns of the opponent (entries at the opponent's places in the history, fillers in between);
///   kind 4 "half-saturated": the same with every other of those positions.
/// For kinds 2 and 4 only history-independent facts (and the internal agreement of lists, summaries and
/// results) may be judged.
pub fn judged_twins(g: &GameState, kinds: u8) -> Vec<(u8, GameState)> {
    let r = std::panic::catch_unwind(std::panic::AssertUnwindSafe(|| {
        if !g.is_play_phase() || kinds == 0 {
            return vec![];
        }
        let pp = g.unwrap_play_phase();
        let gold = g.is_p1_turn_to_move();
        let moveno = g.move_number();
        let step = g.current_step();
        let board = decode_board(g.piece_board());
        let prev: Vec<MBoard> = (0..step).map(|i| decode_board(g.piece_board_for_step(i))).collect();
        let status = pp.push_pull_state();
        let pend = decode_pend(status);
        let trapped = pp.piece_trapped_this_turn();
        let mut out = vec![];
        if kinds & 1 != 0 {
            out.push((1u8, build(gold, moveno, step, &board, &prev, status, trapped, pp.hash_history().clone())));
        }
        if kinds & 6 != 0 && !trapped {
            let newest = match pp.hash_history().head() {
                Some(z) => *z,
                None => return out,
            };
            let mut targets: Vec<Zobrist> = vec![];
            // (the present board with the other side to move is among them at every step)
            targets.push(Zobrist::from_piece_board(piece_board_of(&board).piece_board(), !gold, 0));
            for c in board.legal(gold, step.min(3) as u8, pend).iter() {
                if is_step(c) {
                    if let Some(a) = board.apply(gold, pend, code_sq(c), code_dir(c)) {
                        targets.push(Zobrist::from_piece_board(piece_board_of(&a.board).piece_board(), !gold, 0));
                    }
                }
            }
            for kind in [2u8, 4u8] {
                if kinds & kind == 0 {
                    continue;
                }
                // oldest first: fillers at the mover's places, each target twice at the opponent's places
                let mut entries_oldest_first: Vec<Zobrist> = vec![];
                let mut k = 0usize;
                for (i, t) in targets.iter().enumerate() {
                    if kind == 4 && i % 2 == 1 {
                        continue;
                    }
                    for _ in 0..2 {
                        let mut db = MBoard::empty();
                        db.0[k % 64] = cell((k / 64 % 6) as u8, true);
                        db.0[(k * 11 + 5) % 64] = cell(((k / 3) % 6) as u8, false);
                        entries_oldest_first.push(Zobrist::from_piece_board(piece_board_of(&db).piece_board(), gold, 0));
                        entries_oldest_first.push(*t);
                        k += 1;
                    }
                }
                entries_oldest_first.push(newest);
                let mut l = List::new();
                for z in entries_oldest_first {
                    l = l.append(z);
                }
                out.push((kind, build(gold, moveno, step, &board, &prev, status, trapped, l)));
            }
        }
        out
    }));
    r.unwrap_or_default()
}
