//! Check runner: parallel workers, verdict discipline, evidence and replay files.

use crate::sink::*;
use serde_json::{json, Map, Value};
use std::path::PathBuf;
use std::time::Instant;

#[derive(Clone, Copy, PartialEq, Eq, Debug)]
pub enum Tier {
    Quick,
    Thorough,
}
impl Tier {
    pub fn name(&self) -> &'static str {
        match self {
            Tier::Quick => "quick",
            Tier::Thorough => "thorough",
        }
    }
    /// scale factor for workload sizes
    pub fn pick(&self, quick: u64, thorough: u64) -> u64 {
        match self {
            Tier::Quick => quick,
            Tier::Thorough => thorough,
        }
    }
}

#[derive(Clone)]
pub struct Cfg {
    pub id: &'static str,
    pub tier: Tier,
    pub seed: u64,
    pub workers: usize,
    pub verif_dir: PathBuf,
    /// where evidence/ and replays/ are written (AVM_OUT_DIR, default = verif_dir); experiments on
    /// patched trees use a scratch directory so that committed evidence is not overwritten
    pub out_dir: PathBuf,
    pub started: Instant,
    /// VERIF_SCALE: multiplies workload sizes (testing aid; default 1.0)
    pub scale: f64,
}
impl Cfg {
    pub fn n(&self, quick: u64, thorough: u64) -> u64 {
        ((self.tier.pick(quick, thorough) as f64) * self.scale).ceil().max(1.0) as u64
    }
}

pub fn run_parallel<F>(cfg: &Cfg, f: F) -> Sink
where
    F: Fn(usize, &mut Sink) + Sync,
{
    let mut total = Sink::new();
    let sinks: Vec<Sink> = std::thread::scope(|sc| {
        let hs: Vec<_> = (0..cfg.workers)
            .map(|w| {
                let f = &f;
                std::thread::Builder::new()
                    .stack_size(64 << 20)
                    .spawn_scoped(sc, move || {
                        let mut s = Sink::new();
                        f(w, &mut s);
                        s
                    })
                    .unwrap()
            })
            .collect();
        hs.into_iter().map(|h| h.join().unwrap_or_else(|e| std::panic::resume_unwind(e))).collect()
    });
    for s in sinks {
        total.merge(s);
    }
    total
}

pub struct Floor {
    pub counter: &'static str,
    pub min_quick: u64,
    pub min_thorough: u64,
}
pub fn floor(counter: &'static str, q: u64, t: u64) -> Floor {
    Floor { counter, min_quick: q, min_thorough: t }
}

pub struct Report {
    pub evaluations_counter: &'static str,
    pub rule: String,
    pub assumptions: Vec<String>,
    pub floors: Vec<Floor>,
    pub level: &'static str,
    pub exhaustive: Option<bool>,
    pub extra: Map<String, Value>,
    /// reasons that make the run inconclusive regardless of counters
    pub inconclusive: Vec<String>,
}

pub struct Known {
    pub findings: Vec<(String, String, String)>, // (property, sig, text)
}
pub fn load_known(cfg: &Cfg) -> Known {
    let mut findings = vec![];
    if let Ok(txt) = std::fs::read_to_string(cfg.verif_dir.join("known-findings.txt")) {
        for line in txt.lines() {
            let line = line.trim();
            if let Some(rest) = line.strip_prefix("finding:") {
                let rest = rest.trim();
                // finding: property=<id> sig=<sig> :: <text>
                let (head, text) = rest.split_once(" :: ").unwrap_or((rest, ""));
                if let Some((p, sig)) = head.split_once(" sig=") {
                    let p = p.trim().trim_start_matches("property=").to_string();
                    findings.push((p, sig.trim().to_string(), text.to_string()));
                }
            }
        }
    }
    Known { findings }
}

/// Decide the verdict, write evidence + replays, print the result lines, return the exit code.
pub fn conclude(cfg: &Cfg, sink: Sink, rep: Report) -> i32 {
    let known = load_known(cfg);
    let wall = cfg.started.elapsed().as_secs_f64();
    let evaluations = sink.get(rep.evaluations_counter);
    let distinct = sink.distinct.len() as u64;

    // split violations into known findings and new ones
    let mut new_violations: Vec<&Violation> = vec![];
    let mut known_hits: Vec<(&Violation, &str)> = vec![];
    for v in &sink.violations {
        if let Some((_, _, text)) = known.findings.iter().find(|(p, sig, _)| p == v.property && *sig == v.sig) {
            known_hits.push((v, text));
        } else {
            new_violations.push(v);
        }
    }
    // violations beyond the kept ones cannot be matched against the known list: they count as new
    // unless every kept one was known and the total equals the kept count
    let unkept = sink.violation_count.saturating_sub(sink.violations.len() as u64);

    let mut inconclusive = rep.inconclusive.clone();
    let mut floor_report = Map::new();
    for f in &rep.floors {
        let min = ((cfg.tier.pick(f.min_quick, f.min_thorough) as f64) * cfg.scale.min(1.0)).floor() as u64;
        let got = sink.get(f.counter);
        let met = got >= min;
        floor_report.insert(f.counter.to_string(), json!({"min": min, "observed": got, "met": met}));
        if !met {
            inconclusive.push(format!("floor not met: {} observed {} < {}", f.counter, got, min));
        }
    }
    if sink.games > 0 && sink.games_aborted * 100 > sink.games {
        inconclusive.push(format!("{} of {} games aborted (engine panic / start rejected)", sink.games_aborted, sink.games));
    }
    if evaluations == 0 {
        inconclusive.push("the monitor observed nothing".into());
    }

    let violated = !new_violations.is_empty() || (unkept > 0 && !sink.violations.is_empty() && known_hits.len() != sink.violations.len()) || (unkept > 0 && known_hits.is_empty());
    let verdict = if violated { "violated" } else if !inconclusive.is_empty() { "inconclusive" } else { "held" };

    // replays
    let mut replay_paths = vec![];
    if violated {
        let dir = cfg.out_dir.join("replays");
        let _ = std::fs::create_dir_all(&dir);
        for (n, v) in new_violations.iter().enumerate() {
            let p = dir.join(format!("{}-{}-{}.json", cfg.id, cfg.seed, n));
            let mut w = v.witness.clone();
            if let Value::Object(m) = &mut w {
                m.insert("property".into(), json!(v.property));
                m.insert("clause".into(), json!(v.clause));
                m.insert("detail".into(), json!(v.detail));
                m.insert("sig".into(), json!(v.sig));
            }
            let _ = std::fs::write(&p, serde_json::to_string_pretty(&w).unwrap());
            replay_paths.push(p);
        }
    }

    // evidence
    let mut coverage = Map::new();
    coverage.insert("evaluations".into(), json!(evaluations));
    coverage.insert("distinct_nontrivial".into(), json!(distinct));
    coverage.insert("rule".into(), json!(rep.rule));
    let mut samples = sink.samples.clone();
    if samples.is_empty() {
        samples.push(json!({"note": "no sample case was recorded by this run"}));
    }
    coverage.insert("samples".into(), Value::Array(samples));
    if let Some(e) = rep.exhaustive {
        coverage.insert("exhaustive".into(), json!(e));
    }
    coverage.insert("counters".into(), json!(sink.all_counters()));
    coverage.insert("floors".into(), Value::Object(floor_report));
    coverage.insert("games".into(), json!(sink.games));
    coverage.insert("games_aborted".into(), json!(sink.games_aborted));
    coverage.insert("engine_panics".into(), json!(sink.engine_panics));
    coverage.insert("engine_panic_sites".into(), json!(sink.panic_sites));
    coverage.insert("shadow_resyncs".into(), json!(sink.resyncs));
    coverage.insert("distinct_set_overflow".into(), json!(sink.distinct_overflow));
    coverage.insert("verdict".into(), json!(verdict));
    coverage.insert("inconclusive_reasons".into(), json!(inconclusive));
    coverage.insert("workers".into(), json!(cfg.workers));
    coverage.insert("action_table_via".into(), json!(crate::eng::tables().via));
    if !sink.harness_notes.is_empty() {
        coverage.insert("notes".into(), json!(sink.harness_notes));
    }
    coverage.insert("known_findings_hit".into(), json!(known_hits.iter().map(|(v, _)| v.sig.clone()).collect::<Vec<_>>()));
    coverage.insert("violation_details".into(), json!(sink.violations.iter().map(|v| json!({"clause": v.clause, "detail": v.detail})).collect::<Vec<_>>()));
    for (k, v) in rep.extra {
        coverage.insert(k, v);
    }
    let ev = json!({
        "property_id": cfg.id,
        "tier": cfg.tier.name(),
        "seed": cfg.seed,
        "level": rep.level,
        "coverage": Value::Object(coverage),
        "assumptions": rep.assumptions,
        "wall_s": (wall * 1000.0).round() / 1000.0,
        "violations": sink.violation_count,
    });
    let evdir = cfg.out_dir.join("evidence");
    let _ = std::fs::create_dir_all(&evdir);
    let evpath = evdir.join(format!("{}.json", cfg.id));
    std::fs::write(&evpath, serde_json::to_string_pretty(&ev).unwrap()).expect("write evidence");

    // output
    println!(
        "[{}] tier={} seed={} verdict={} evaluations={} distinct_nontrivial={} violations={} engine_panics={} wall={:.1}s",
        cfg.id,
        cfg.tier.name(),
        cfg.seed,
        verdict,
        evaluations,
        distinct,
        sink.violation_count,
        sink.engine_panics,
        wall
    );
    for (v, text) in &known_hits {
        println!("KNOWN-FINDING: property={} {} [{}]", v.property, text, v.sig);
    }
    if violated {
        for (n, v) in new_violations.iter().enumerate() {
            println!("  clause={} {}", v.clause, truncate(&v.detail, 600));
            println!("VIOLATION property={} replay={}", cfg.id, replay_paths[n].display());
        }
        if new_violations.is_empty() {
            println!("VIOLATION property={} replay={}", cfg.id, evpath.display());
        }
        return 1;
    }
    if !inconclusive.is_empty() {
        for r in &inconclusive {
            println!("INCONCLUSIVE property={} reason={}", cfg.id, r);
        }
        return 2;
    }
    0
}

fn truncate(s: &str, n: usize) -> String {
    if s.chars().count() <= n {
        s.to_string()
    } else {
        let t: String = s.chars().take(n).collect();
        format!("{}…", t)
    }
}
