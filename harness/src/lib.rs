pub mod c18;
pub mod checks;
pub mod checks2;
pub mod decoy;
pub mod driver;
pub mod eng;
pub mod gen;
pub mod longgame;
pub mod model;
pub mod mon_more;
pub mod mon_rules;
pub mod mon_state;
pub mod record;
pub mod replay;
pub mod rng;
pub mod runner;
pub mod sink;
pub mod strings;
pub mod sym;
pub mod workloads;

use runner::Cfg;

/// exit codes: 0 held, 1 violated, 2 inconclusive, 3 usage
pub fn dispatch(cfg: &Cfg, _extra: &[String]) -> i32 {
    let t = eng::tables();
    if !t.problems.is_empty() && !matches!(cfg.id, "C16" | "C10") {
        // the notation parser is unusable; actions were built with the constructors instead
        eprintln!("note: action table built via {} ({} problems, first: {})", t.via, t.problems.len(), t.problems[0]);
    }
    match cfg.id {
        "C01" => checks::c01(cfg),
        "C02" => checks::c02(cfg),
        "C03" => checks::c03(cfg),
        "C05" => checks::c05(cfg),
        "C06" => checks::c06(cfg),
        "C07" => checks::c07(cfg),
        "C08" => checks::c08(cfg),
        "C10" => checks::c10(cfg),
        "C12" => checks::c12(cfg),
        "C13" => checks::c13(cfg),
        "C14" => checks::c14(cfg),
        "C04" => checks2::c04(cfg),
        "C09" => checks2::c09(cfg),
        "C11" => checks2::c11(cfg),
        "C15" => checks2::c15(cfg),
        "C15-strings" => checks2::c15_strings_child(cfg),
        "C16" => checks2::c16(cfg),
        "C16-strings" => checks2::c16_strings_child(cfg),
        "C17" => checks2::c17(cfg),
        "C18" => c18::c18(cfg),
        "C19" => checks2::c19(cfg),
        "C20" => longgame::c20(cfg),
        _ => {
            eprintln!("unknown property id {}", cfg.id);
            3
        }
    }
}

pub fn monitor_for(id: &str) -> Option<Box<dyn driver::Monitor>> {
    Some(match id {
        "C01" => Box::new(mon_rules::C01::default()),
        "C02" => Box::new(mon_rules::C02::default()),
        "C03" => Box::new(mon_rules::C03::default()),
        "C04" => Box::new(mon_rules::C04::default()),
        "C05" => Box::new(mon_rules::C05::default()),
        "C06" => Box::new(mon_rules::C06::default()),
        "C07" => Box::new(mon_rules::C07::default()),
        "C08" => Box::new(mon_state::C08::new()),
        "C10" => Box::new(mon_state::C10::new()),
        "C12" => Box::new(mon_state::C12::default()),
        "C13" => Box::new(mon_state::C13::default()),
        "C14" => Box::new(mon_state::C14::default()),
        "C09" => Box::new(mon_more::C09::default()),
        "C15" => Box::new(mon_more::C15::default()),
        "C19" => Box::new(mon_more::C19::default()),
        _ => return None,
    })
}

pub fn replay_other(prop: &str, v: &serde_json::Value) -> i32 {
    let kind = v.get("kind").and_then(|k| k.as_str()).unwrap_or("");
    match kind {
        "string" => {
            let input = v["input"].as_str().unwrap_or("");
            let mut sink = sink::Sink::new();
            if prop == "C15" {
                strings::judge_position_text(input, "replay", &mut sink);
            } else {
                strings::judge_notation(input, &mut sink);
            }
            for x in &sink.violations {
                println!("  clause={} {}", x.clause, x.detail);
            }
            if sink.violation_count > 0 {
                println!("VIOLATION property={} replay=<this file>", prop);
                1
            } else {
                println!("no violation on this input with the current tree");
                0
            }
        }
        "longgame" => longgame::replay(v),
        "c09_sparse" => {
            let order: Vec<u8> = v["order"].as_str().unwrap_or("").chars().filter_map(|c| model::LETTERS.iter().position(|l| *l == c).map(|x| x as u8)).collect();
            let ask: Vec<usize> = v["questions_before"].as_array().map(|a| a.iter().filter_map(|x| x.as_u64().map(|y| y as usize)).collect()).unwrap_or_default();
            let mut sink = sink::Sink::new();
            checks2::sparse_setup_walk(&order, &ask, v["walk"].as_u64().unwrap_or(0), &mut sink);
            for x in &sink.violations {
                println!("  clause={} {}", x.clause, x.detail);
            }
            if sink.violation_count > 0 {
                println!("VIOLATION property={} replay=<this file>", prop);
                1
            } else {
                println!("no violation on this walk with the current tree");
                0
            }
        }
        "twin" => {
            let rec0 = match record::GameRecord::from_json(v) {
                Some(r) => r,
                None => return 3,
            };
            let t = v["transform"].as_str().unwrap_or("mirror");
            let (mirror, flip) = match t {
                "mirror" => (true, false),
                "colour_swap_rank_flip" => (false, true),
                _ => (true, true),
            };
            let mut sink = sink::Sink::new();
            let mut st = sym::TwinStats { states: [0; 3], captures: 0, withheld_states: 0, terminals: [0; 3] };
            let mut rec = record::GameRecord::new("replay", 0, 0, rec0.start.clone());
            let mut rng = rng::Rng::new(0, 0);
            sym::twin_game(&mut rec, driver::Policy::Replay(rec0.actions.clone()), u32::MAX, mirror, flip, &mut rng, &mut st, &mut sink);
            println!("replayed {} of {} recorded actions of the twin game under transform {}", rec.actions.len(), rec0.actions.len(), t);
            for x in &sink.violations {
                println!("  clause={} {}", x.clause, x.detail);
            }
            if sink.violation_count > 0 {
                println!("VIOLATION property=C11 replay=<this file>");
                1
            } else {
                println!("no violation on this history with the current tree");
                0
            }
        }
        "value" | "c17" | "threads" => {
            println!("witness kind {:?}: re-run ./check.sh {} (the case is enumerated deterministically by the check itself)", kind, prop);
            3
        }
        _ => {
            eprintln!("unknown witness kind {:?}", kind);
            3
        }
    }
}
