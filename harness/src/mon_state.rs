//! Monitors C08, C10, C12, C13, C14, C15 (round-trip part), C19.

use crate::driver::*;
use crate::eng::*;
use crate::model::*;
use crate::mon_rules::state_text;
use crate::record::GameRecord;
use crate::sink::Sink;
use arimaa_engine_step::*;
use serde_json::json;
use std::collections::hash_map::DefaultHasher;
use std::collections::HashMap;
use std::hash::{Hash, Hasher};

// ---------------------------------------------------------------------------------------------
/// Hash value tables extracted through the public API at start-up (second from-scratch route).
pub struct HashTables {
    pub base_play_gold_step0: u64, // hash of the empty board, gold to move, step 0
    pub piece: [[u64; 64]; 13],
    pub side: u64,
    pub step: [u64; 4], // xor relative to step 0
}
/// How the value tables were obtained: "incremental-api" (Zobrist::place_piece / exclude_step,
/// independent of from_piece_board) or "from_piece_board-differences" (fallback used when the
/// incremental Zobrist API of the tree under test no longer has the shape this harness knows).
pub const HASH_TABLE_ROUTE: &str = if cfg!(feature = "zapi") { "incremental-api" } else { "from_piece_board-differences" };

#[cfg(feature = "zapi")]
pub fn extract_hash_tables() -> HashTables {
    // Deliberately NOT through Zobrist::from_piece_board (that is route (i)): the values are read
    // off the incremental API (place_piece / exclude_step), so a slip inside either route shows.
    let t = tables();
    let z0 = Zobrist::initial();
    let i0 = z0.board_state_hash();
    let sq = |i: usize| sq_text(i).parse::<Square>().unwrap_or_else(|_| Square::from_index(i as u8));
    let mut piece = [[0u64; 64]; 13];
    for c in 1..13u8 {
        for i in 0..64 {
            piece[c as usize][i] = z0.place_piece(t.piece[strength(c) as usize], sq(i), is_gold(c), false, false).board_state_hash() ^ i0;
        }
    }
    let p = t.piece[0];
    let plain = z0.place_piece(p, sq(0), true, false, false).board_state_hash();
    let switched = z0.place_piece(p, sq(0), true, true, false).board_state_hash();
    let phased = z0.place_piece(p, sq(0), true, false, true).board_state_hash();
    let side = plain ^ switched;
    let step0 = switched ^ phased;
    let mut step = [0u64; 4];
    for k in 0..4 {
        step[k] = z0.exclude_step(k).board_state_hash() ^ i0;
    }
    HashTables { base_play_gold_step0: i0 ^ step0, piece, side, step }
}

#[cfg(not(feature = "zapi"))]
pub fn extract_hash_tables() -> HashTables {
    let empty = MBoard::empty();
    let h = |b: &MBoard, gold: bool, step: usize| Zobrist::from_piece_board(piece_board_of(b).piece_board(), gold, step).board_state_hash();
    let base = h(&empty, true, 0);
    let mut piece = [[0u64; 64]; 13];
    for c in 1..13u8 {
        for i in 0..64 {
            let mut b = empty;
            b.0[i] = c;
            piece[c as usize][i] = h(&b, true, 0) ^ base;
        }
    }
    let side = h(&empty, false, 0) ^ base;
    let mut step = [0u64; 4];
    for k in 0..4 {
        step[k] = h(&empty, true, k) ^ base;
    }
    HashTables { base_play_gold_step0: base, piece, side, step }
}

impl HashTables {
    pub fn scratch(&self, b: &MBoard, gold: bool, step: u8) -> u64 {
        let mut h = self.base_play_gold_step0;
        for i in 0..64 {
            if b.0[i] != 0 {
                h ^= self.piece[b.0[i] as usize][i];
            }
        }
        if !gold {
            h ^= self.side;
        }
        h ^ self.step[step as usize]
    }
}

/// C08 — the hash depends only on board, side, step and push/pull status.
pub struct C08 {
    tables: HashTables,
    states: u64,
    cap: [[u64; 2]; 4],
    turn_by_pass: u64,
    turn_by_step4: u64,
    seen: HashMap<u64, u32>, // multiset of from-scratch hashes of this game's turn starts
    trans: HashMap<(MBoard, bool, u8), (GameState, u64, u64)>, // first state, its path fingerprint, std-hash
    trans_pairs: u64,
    trans_pairs_diff_path: u64,
    setup_vs_parse: u64,
    hook_observed: u64,
    history_entries_checked: u64,
}
impl C08 {
    pub fn new() -> C08 {
        C08 { tables: extract_hash_tables(), states: 0, cap: [[0; 2]; 4], turn_by_pass: 0, turn_by_step4: 0, seen: HashMap::new(), trans: HashMap::new(), trans_pairs: 0, trans_pairs_diff_path: 0, setup_vs_parse: 0, hook_observed: 0, history_entries_checked: 0 }
    }
}
fn std_hash(g: &GameState) -> u64 {
    let mut h = DefaultHasher::new();
    g.hash(&mut h);
    h.finish()
}
fn path_fp(rec: &GameRecord) -> u64 {
    let mut h = crate::model::fnv(rec.start_text().as_bytes());
    for a in &rec.actions {
        h = mix(h, *a as u64);
    }
    h
}
impl Monitor for C08 {
    fn on_game_start(&mut self, _rec: &GameRecord, _s: &mut Sink) {
        self.seen.clear();
        if self.trans.len() > 300_000 {
            self.trans.clear();
        }
    }
    fn on_state(&mut self, o: &Obs, s: &mut Sink) {
        let sh = o.sh;
        self.states += 1;
        let r = guard("hash queries", || {
            let pp = o.g.unwrap_play_phase();
            let status = pp.push_pull_state();
            let th = o.g.transposition_hash();
            let scratch1 = Zobrist::from_piece_board(o.g.piece_board(), o.g.is_p1_turn_to_move(), o.g.current_step());
            (status, th, scratch1.board_state_hash_with_push_pull_state(status), scratch1.board_state_hash_with_push_pull_state(PushPullState::None))
        });
        let (status, th, scratch1, scratch1_nostatus) = match r {
            Ok(x) => x,
            Err(_) => return,
        };
        // route (i): the engine's own from-scratch constructor on the engine's own board
        if th != scratch1 {
            s.violate_game("C08", "incremental_hash_ne_from_scratch", o.rec, format!("transposition_hash={:#018x} from_scratch={:#018x} {}", th, scratch1, state_text(sh)));
        }
        // route (ii): xor of value tables extracted through the API, over the *observed* board,
        // with the status contribution isolated the same way
        let status_part = scratch1 ^ scratch1_nostatus;
        let scratch2 = self.tables.scratch(&sh.board, sh.gold, sh.step) ^ status_part;
        if th != scratch2 {
            s.violate_game("C08", "hash_ne_table_xor", o.rec, format!("transposition_hash={:#018x} table_xor={:#018x} {}", th, scratch2, state_text(sh)));
        }
        if status != PushPullState::None || sh.captured_this_turn {
            s.distinct(mix(sh.fingerprint(), 8));
        }
        // history entries
        if sh.step == 0 && o.linear {
            let own = self.tables.scratch(&sh.board, sh.gold, 0);
            *self.seen.entry(own).or_insert(0) += 1;
            let r = guard("hash_history", || {
                let hist = o.g.unwrap_play_phase().hash_history();
                let v: Vec<u64> = hist.iter().map(|z| z.board_state_hash()).collect();
                (hist.len(), v)
            });
            if let Ok((len, entries)) = r {
                if len != entries.len() {
                    s.violate_game("C08", "history_len_field", o.rec, format!("len()={} iterated={}", len, entries.len()));
                }
                if entries.first().copied() != Some(own) {
                    s.violate_game("C08", "recorded_turn_start_hash_ne_from_scratch", o.rec, format!("head={:?} from_scratch={:#018x} {}", entries.first().map(|h| format!("{:#018x}", h)), own, state_text(sh)));
                }
                let mut cnt: HashMap<u64, u32> = HashMap::new();
                for e in &entries {
                    *cnt.entry(*e).or_insert(0) += 1;
                }
                self.history_entries_checked += entries.len() as u64;
                for (e, n) in cnt {
                    if self.seen.get(&e).copied().unwrap_or(0) < n {
                        s.violate_game("C08", "history_entry_not_a_turn_start_hash", o.rec, format!("entry={:#018x} occurs {} times in the history but only {} turn starts of this game hash to it", e, n, self.seen.get(&e).copied().unwrap_or(0)));
                        break;
                    }
                }
            }
            #[cfg(feature = "hooks")]
            {
                if let Ok(h) = guard("verif_initial_hash_of_move", || o.g.unwrap_play_phase().verif_initial_hash_of_move().board_state_hash()) {
                    self.hook_observed += 1;
                    if h != own {
                        s.violate_game("C08", "stored_turn_start_hash_ne_from_scratch", o.rec, format!("stored={:#018x} from_scratch={:#018x}", h, own));
                    }
                }
            }
        } else if o.linear {
            #[cfg(feature = "hooks")]
            {
                let own = self.tables.scratch(&sh.turn_start, sh.gold, 0);
                if let Ok(h) = guard("verif_initial_hash_of_move", || o.g.unwrap_play_phase().verif_initial_hash_of_move().board_state_hash()) {
                    self.hook_observed += 1;
                    if h != own {
                        s.violate_game("C08", "stored_turn_start_hash_ne_from_scratch", o.rec, format!("mid-turn stored={:#018x} from_scratch_of_turn_start={:#018x}", h, own));
                    }
                }
            }
        }
        // the same position read from text, with every side letter the notation accepts (g / w for Gold, s / b for Silver)
        if sh.step == 0 && self.states % 16 == 0 {
            let body = sh.board.to_text(sh.gold, 7);
            let body = body.splitn(2, '\n').nth(1).unwrap_or("").to_string();
            for letter in if sh.gold { ['g', 'w'] } else { ['s', 'b'] } {
                let text = format!("7{}\n{}", letter, body);
                let r = guard("setup_vs_parse", || text.parse::<GameState>().ok().map(|p| (p.transposition_hash(), p.is_p1_turn_to_move(), p.unwrap_play_phase().hash_history().head().map(|z| z.board_state_hash()))));
                if let Ok(Some((hp, side, head))) = r {
                    self.setup_vs_parse += 1;
                    let exp = self.tables.scratch(&sh.board, sh.gold, 0);
                    if hp != exp || side != sh.gold || head.map_or(false, |h| h != exp) {
                        s.violate_game("C08", "parsed_position_hash_ne_from_scratch", o.rec, format!("side letter '{}': parsed side gold={} hash={:#018x} history head={:?}, from scratch {:#018x} {}", letter, side, hp, head, exp, state_text(sh)));
                    }
                }
            }
        }
        // transpositions: same (board, side, step) must compare equal and hash equal
        let k = (sh.board, sh.gold, sh.step);
        let pf = path_fp(o.rec);
        if let Some((first, fp, sh0)) = self.trans.get(&k) {
            if *fp != pf {
                self.trans_pairs += 1;
                self.trans_pairs_diff_path += 1;
                let eq = guard("GameState ==", || first == o.g).unwrap_or(true);
                let h2 = std_hash(o.g);
                if !eq {
                    s.violate_game("C08", "equal_board_side_step_compare_unequal", o.rec, state_text(sh));
                }
                if *sh0 != h2 {
                    s.violate_game("C08", "equal_board_side_step_hash_unequal", o.rec, state_text(sh));
                }
            }
        } else if self.trans.len() < 400_000 && (sh.actions > 0) {
            self.trans.insert(k, (o.g.clone(), pf, std_hash(o.g)));
        }
        if s.want_sample() && self.states % 5003 == 0 {
            s.sample(json!({"start": o.rec.start_text(), "actions": o.rec.actions_text(), "state": state_text(sh), "transposition_hash": format!("{:#018x}", th), "from_scratch": format!("{:#018x}", scratch1)}));
        }
    }
    fn on_setup_transition(&mut self, t: &SetupTrans, s: &mut Sink) {
        if t.model_after.done() {
            // a finished setup hashes like the same position parsed from text
            let r = guard("setup_vs_parse", || {
                let b = decode_board(t.after.piece_board());
                let text = b.to_text(true, 2);
                let parsed: Result<GameState, _> = text.parse::<GameState>();
                parsed.ok().map(|p| (p.transposition_hash(), t.after.transposition_hash(), p == *t.after, std_hash(&p) == std_hash(t.after)))
            });
            if let Ok(Some((hp, hs, eq, heq))) = r {
                self.setup_vs_parse += 1;
                if hp != hs || !eq || !heq {
                    s.violate_game("C08", "finished_setup_hash_ne_parsed_position", t.rec, format!("setup={:#018x} parsed={:#018x} eq={} std_hash_eq={}", hs, hp, eq, heq));
                }
            }
        }
    }
    fn on_transition(&mut self, t: &Trans, _s: &mut Sink) {
        if let Some(a) = t.applied {
            if let Some((tr, c)) = a.captured.first() {
                let ti = TRAPS.iter().position(|x| x == tr).unwrap();
                self.cap[ti][is_gold(*c) as usize] += 1;
            }
        }
        if t.turn_ended {
            if t.code == PASS {
                self.turn_by_pass += 1;
            } else {
                self.turn_by_step4 += 1;
            }
        }
    }
    fn finish(&mut self, s: &mut Sink) {
        s.add("states_judged", self.states);
        for ti in 0..4 {
            for g in 0..2 {
                s.add(&format!("captures_{}_{}", sq_text(TRAPS[ti]), if g == 1 { "gold" } else { "silver" }), self.cap[ti][g]);
            }
        }
        s.add("turn_changes_by_pass", self.turn_by_pass);
        s.add("turn_changes_by_fourth_step", self.turn_by_step4);
        s.add("transposition_pairs_different_paths", self.trans_pairs_diff_path);
        s.add("setup_completions_compared_with_parse", self.setup_vs_parse);
        s.add("history_entries_checked", self.history_entries_checked);
        s.add("hook_observations", self.hook_observed);
    }
}

// ---------------------------------------------------------------------------------------------
/// C10 — all board views agree on one legal position.
pub struct C10 {
    states: u64,
    occ: [[u64; 64]; 13],
}
impl C10 {
    pub fn new() -> C10 {
        C10 { states: 0, occ: [[0; 64]; 13] }
    }
    fn check(&mut self, rec: &GameRecord, g: &GameState, any_action_applied: bool, s: &mut Sink) {
        self.states += 1;
        let t = tables();
        let r = guard("board views", || {
            let pb = g.piece_board();
            let mut problems: Vec<(&'static str, String)> = vec![];
            let types = [pb.rabbits, pb.cats, pb.dogs, pb.horses, pb.camels, pb.elephants];
            let mut union = 0u64;
            for a in 0..6 {
                for b in a + 1..6 {
                    if types[a] & types[b] != 0 {
                        problems.push(("type_boards_intersect", format!("{} & {} = {:#x}", LETTERS[a], LETTERS[b], types[a] & types[b])));
                    }
                }
                union |= types[a];
            }
            if union != pb.all_pieces {
                problems.push(("union_ne_all_pieces", format!("union={:#x} all={:#x}", union, pb.all_pieces)));
            }
            if pb.p1_pieces & !pb.all_pieces != 0 {
                problems.push(("gold_not_subset_of_all", format!("{:#x}", pb.p1_pieces & !pb.all_pieces)));
            }
            for st in 0..6 {
                let p = t.piece[st];
                if pb.bits_by_piece_type(p) != types[st] {
                    problems.push(("bits_by_piece_type", format!("{}", LETTERS[st])));
                }
                if pb.bits_for_piece(p, true) != types[st] & pb.p1_pieces || pb.bits_for_piece(p, false) != types[st] & !pb.p1_pieces & pb.all_pieces {
                    problems.push(("bits_for_piece", format!("{}", LETTERS[st])));
                }
            }
            if pb.player_piece_mask(true) != pb.p1_pieces || pb.player_piece_mask(false) != pb.all_pieces & !pb.p1_pieces {
                problems.push(("player_piece_mask", String::new()));
            }
            let b = decode_board(pb);
            // square lookup, for every square by its *text*
            for i in 0..64usize {
                let sq: Square = match sq_text(i).parse() {
                    Ok(sq) => sq,
                    Err(_) => continue, // C16's business
                };
                let look = pb.piece_type_at_square(&sq).map(piece_strength);
                let exp = if b.0[i] == 0 { None } else { Some(strength(b.0[i])) };
                if look != exp {
                    problems.push(("piece_type_at_square", format!("{} lookup={:?} bitboards={:?}", sq_text(i), look, exp)));
                }
                let bit_set = pb.all_pieces >> i & 1 == 1;
                if bit_set != (b.0[i] != 0) {
                    problems.push(("bit_i_vs_square_i", sq_text(i)));
                }
            }
            // printed diagram vs bit i
            let printed = g.to_string();
            let lines: Vec<&str> = printed.lines().collect();
            if lines.len() >= 10 {
                for r in 0..8 {
                    let row: Vec<char> = lines[2 + r].chars().collect();
                    for f in 0..8 {
                        let ch = row.get(3 + 2 * f).copied().unwrap_or('?');
                        let i = r * 8 + f;
                        let exp = if b.0[i] != 0 { cell_char(b.0[i]) } else if TRAPS.contains(&i) { 'x' } else { ' ' };
                        if ch != exp {
                            problems.push(("printed_diagram_cell", format!("{} printed={:?} bitboards={:?}", sq_text(i), ch, exp)));
                        }
                    }
                    if row.first().copied() != Some((b'8' - r as u8) as char) {
                        problems.push(("printed_rank_label", format!("row {}", r)));
                    }
                }
            } else {
                problems.push(("printed_diagram_shape", format!("{} lines", lines.len())));
            }
            if !b.within_complement() {
                problems.push(("count_above_complement", format!("{:?}", b.counts())));
            }
            if any_action_applied {
                if let Some(tr) = b.unsupported_trap_piece() {
                    problems.push(("unsupported_piece_on_trap", sq_text(tr)));
                }
            }
            (b, problems)
        });
        if let Ok((b, problems)) = r {
            for (clause, d) in problems.into_iter().take(2) {
                s.violate_game("C10", clause, rec, format!("{} board={}", d, b.compact()));
            }
            for i in 0..64 {
                self.occ[b.0[i] as usize][i] += 1;
            }
            s.distinct(b.fingerprint());
            if s.want_sample() && self.states % 4001 == 0 {
                s.sample(json!({"start": rec.start_text(), "actions": rec.actions_text(), "board": b.compact()}));
            }
        }
    }
}
impl Monitor for C10 {
    fn on_setup_state(&mut self, o: &SetupObs, s: &mut Sink) {
        s.count("setup_states_judged");
        self.check(o.rec, o.g, false, s);
    }
    fn on_state(&mut self, o: &Obs, s: &mut Sink) {
        let applied = o.sh.actions > 0 || matches!(o.rec.start, crate::record::Start::Setup { .. });
        self.check(o.rec, o.g, applied, s);
    }
    fn finish(&mut self, s: &mut Sink) {
        s.add("states_judged", self.states);
        s.declare_bits("square_x_piece_kind_cells_seen_of_768");
        for c in 1..13 {
            for i in 0..64 {
                if self.occ[c][i] > 0 {
                    s.bit("square_x_piece_kind_cells_seen_of_768", (c - 1) * 64 + i);
                }
            }
        }
    }
}

// ---------------------------------------------------------------------------------------------
/// C12 — the push/pull status describes the previous step.
#[derive(Default)]
pub struct C12 {
    states: u64,
    kinds: [[u64; 6]; 3],
    squares: [u64; 3],
    pull_or_push_ambiguous: u64,
    own_step_completing_push: u64,
    rabbit_steps: u64,
}
impl Monitor for C12 {
    fn twin_kinds(&self) -> u8 {
        1
    }
    fn on_twin_state(&mut self, _kind: u8, o: &Obs, s: &mut Sink) {
        // nothing judged in on_state depends on the history the twin was given
        self.on_state(o, s);
    }
    fn on_state(&mut self, o: &Obs, s: &mut Sink) {
        let sh = o.sh;
        self.states += 1;
        let r = guard("push_pull_state", || o.g.unwrap_play_phase().push_pull_state());
        let e = match r {
            Ok(p) => decode_pend(p),
            Err(_) => return,
        };
        if e != sh.pend {
            let clause = match (e.kind(), sh.pend.kind()) {
                (a, b) if a != b => "status_kind",
                _ => "status_square_or_type",
            };
            s.violate_game("C12", clause, o.rec, format!("engine={:?} expected={:?} previous_action={} {}", e, sh.pend, sh.last.map_or("-".into(), code_text), state_text(sh)));
        }
        match sh.pend {
            Pend::None => self.kinds[0][0] += 1,
            Pend::Pull(q, t) => {
                self.kinds[1][t as usize] += 1;
                self.squares[1] |= 1u64 << q;
            }
            Pend::Push(q, t) => {
                self.kinds[2][t as usize] += 1;
                self.squares[2] |= 1u64 << q;
                let model = sh.board.legal(sh.gold, sh.step, sh.pend);
                let eng = ActSet::from_codes(o.norep_codes);
                if eng != model {
                    s.violate_game("C12", "pending_push_list_ne_completions", o.rec, format!("rule_only={} completions={} {}", eng.text(), model.text(), state_text(sh)));
                }
                if o.norep_codes.is_empty() {
                    s.violate_game("C12", "pending_push_without_completion", o.rec, state_text(sh));
                }
            }
        }
        if sh.pend != Pend::None {
            s.distinct(sh.fingerprint());
            if s.want_sample() && self.states % 3001 == 0 {
                s.sample(json!({"start": o.rec.start_text(), "actions": o.rec.actions_text(), "state": state_text(sh), "engine_status": format!("{:?}", e)}));
            }
        }
    }
    fn on_transition(&mut self, t: &Trans, _s: &mut Sink) {
        if let Some(a) = t.applied {
            if a.completed_pull {
                // could the same step also have started a push?
                let sh = t.before.sh;
                if sh.step < 3 && sh.board.has_stronger_unfrozen_neighbour(code_sq(t.code), sh.gold, strength(a.moved_cell)) {
                    self.pull_or_push_ambiguous += 1;
                }
            }
            if a.completed_push {
                self.own_step_completing_push += 1;
            }
            if !a.mover_enemy && strength(a.moved_cell) == 0 {
                self.rabbit_steps += 1;
            }
        }
    }
    fn finish(&mut self, s: &mut Sink) {
        s.add("states_judged", self.states);
        s.add("status_none", self.kinds[0][0]);
        for t in 0..6 {
            if t >= 1 {
                s.add(&format!("status_pull_by_{}", LETTERS[t]), self.kinds[1][t]);
            }
            if t <= 4 {
                s.add(&format!("status_push_of_{}", LETTERS[t]), self.kinds[2][t]);
            }
        }
        s.declare_bits("pull_status_squares_seen_of_64");
        s.declare_bits("push_status_squares_seen_of_64");
        for i in 0..64 {
            if self.squares[1] >> i & 1 == 1 {
                s.bit("pull_status_squares_seen_of_64", i);
            }
            if self.squares[2] >> i & 1 == 1 {
                s.bit("push_status_squares_seen_of_64", i);
            }
        }
        s.add("pull_completions_that_could_have_been_push_starts", self.pull_or_push_ambiguous);
        s.add("own_steps_completing_a_push", self.own_step_completing_push);
        s.add("rabbit_steps", self.rabbit_steps);
    }
}

// ---------------------------------------------------------------------------------------------
/// C13 — the capture preview predicts exactly what applying the step removes.
#[derive(Default)]
pub struct C13 {
    previews: u64,
    some: [[[u64; 5]; 2]; 4],
    none_for_pass_or_place: u64,
}
impl C13 {
    fn judge(&mut self, rec: &GameRecord, g: &GameState, board: &MBoard, gold: bool, pend: Pend, code: Code, s: &mut Sink) {
        let a = code_act(code);
        let r = guard_act("preview+apply", &a, || {
            let pre = g.trapped_animal_for_action(&a).map(|(sq, p, is_gold)| (sq.index(), cell(piece_strength(p), is_gold)));
            let after = decode_board(g.take_action(&a).piece_board());
            (pre, after)
        });
        let (pre, after) = match r {
            Ok(x) => x,
            Err(_) => return,
        };
        self.previews += 1;
        // what actually disappeared: kinds whose count dropped; the square is the trap the piece
        // stood on after the move (the square that is empty afterwards but where the moved board had it)
        let moved = if is_step(code) { board.apply(gold, pend, code_sq(code), code_dir(code)) } else { None };
        let kb = board.counts();
        let ka = after.counts();
        let mut removed: Vec<u8> = vec![];
        for k in 1..13 {
            for _ in ka[k]..kb[k] {
                removed.push(k as u8);
            }
        }
        if removed.len() > 1 {
            s.violate_game("C13", "step_removed_more_than_one_piece", rec, format!("action={} before={} after={}", code_text(code), board.compact(), after.compact()));
            return;
        }
        let actual: Option<(usize, u8)> = removed.first().map(|k| {
            // square: where the pre-capture board (before + move) has kind k but `after` has nothing
            let mut pre_cap = *board;
            if is_step(code) {
                if let Some(t) = nb(code_sq(code), code_dir(code)) {
                    pre_cap.0[t] = pre_cap.0[code_sq(code)];
                    pre_cap.0[code_sq(code)] = 0;
                }
            }
            let sq = (0..64).find(|i| pre_cap.0[*i] == *k && after.0[*i] == 0).unwrap_or(64);
            (sq, *k)
        });
        if pre != actual {
            let clause = match (pre, actual) {
                (None, Some(_)) => "preview_none_but_piece_removed",
                (Some(_), None) => "preview_some_but_nothing_removed",
                (Some(p), Some(a)) if p.0 != a.0 => "preview_wrong_square",
                (Some(p), Some(a)) if strength(p.1) != strength(a.1) => "preview_wrong_type",
                _ => "preview_wrong_owner",
            };
            let f = |x: Option<(usize, u8)>| x.map_or("none".to_string(), |(q, c)| format!("{}@{}", cell_char(c), if q < 64 { sq_text(q) } else { "?".into() }));
            s.violate_game("C13", clause, rec, format!("action={} preview={} actually_removed={} before={}", code_text(code), f(pre), f(actual), board.compact()));
        }
        if let Some((sq, c)) = actual {
            if let Some(ti) = TRAPS.iter().position(|x| *x == sq) {
                let cause = match &moved {
                    Some(m) if m.to == sq && !m.mover_enemy => 0,
                    Some(m) if m.to == sq => 2,
                    Some(m) if m.mover_enemy => 3,
                    Some(_) => 1,
                    None => 4,
                };
                self.some[ti][is_gold(c) as usize][cause] += 1;
            }
            s.distinct(mix(board.fingerprint(), code as u64));
            if s.want_sample() {
                s.sample(json!({"start": rec.start_text(), "actions": rec.actions_text(), "board": board.compact(), "action": code_text(code), "preview": format!("{}@{}", cell_char(c), sq_text(sq.min(63)))}));
            }
        }
        if !is_step(code) {
            self.none_for_pass_or_place += 1;
        }
    }
}
impl Monitor for C13 {
    fn on_setup_state(&mut self, o: &SetupObs, s: &mut Sink) {
        for c in o.offered_codes {
            if *c == u16::MAX {
                continue;
            }
            let a = code_act(*c);
            if let Ok(pre) = guard_act("trapped_animal_for_action", &a, || o.g.trapped_animal_for_action(&a)) {
                self.previews += 1;
                self.none_for_pass_or_place += 1;
                if pre.is_some() {
                    s.violate_game("C13", "preview_some_for_placement", o.rec, format!("action={}", code_text(*c)));
                }
            }
        }
    }
    fn on_state(&mut self, o: &Obs, s: &mut Sink) {
        let sh = o.sh;
        // every offered action: the offered list and (superset) the rule-only list
        for c in o.norep_codes {
            if *c != u16::MAX {
                self.judge(o.rec, o.g, &sh.board, sh.gold, sh.pend, *c, s);
            }
        }
    }
    fn finish(&mut self, s: &mut Sink) {
        s.add("previews_judged", self.previews);
        s.add("previews_for_pass_or_placement", self.none_for_pass_or_place);
        let causes = ["stepped_in", "supporter_left", "displaced_in", "supporter_displaced", "other"];
        let mut total = 0;
        for ti in 0..4 {
            for g in 0..2 {
                for c in 0..4 {
                    total += self.some[ti][g][c];
                    s.add(&format!("preview_{}_{}_{}", sq_text(TRAPS[ti]), if g == 1 { "gold" } else { "silver" }, causes[c]), self.some[ti][g][c]);
                }
            }
        }
        s.add("previews_some", total);
    }
}

// ---------------------------------------------------------------------------------------------
/// C14 — earlier boards of the current turn.
#[derive(Default)]
pub struct C14 {
    states: [u64; 4],
    with_capture: u64,
    /// a state object that is overwritten in place with `clone_from` at every visited state: its previous
    /// content is the previously visited state (in tree walks a sibling line of the same turn) or, every
    /// eighth time, a type-permuted look-alike (same occupancy and colours)
    scratch: Option<GameState>,
    visited: u64,
    clone_from_copies: u64,
    raw_word_comparisons: u64,
}
impl Monitor for C14 {
    fn on_state(&mut self, o: &Obs, s: &mut Sink) {
        let sh = o.sh;
        let k = sh.step as usize;
        self.states[k.min(3)] += 1;
        if sh.captured_this_turn {
            self.with_capture += 1;
        }
        for i in 0..=k {
            let r = guard("piece_board_for_step", || {
                let pb = o.g.piece_board_for_step(i);
                (decode_board(pb), [pb.p1_pieces, pb.elephants, pb.camels, pb.horses, pb.dogs, pb.cats, pb.rabbits], pb.all_pieces)
            });
            match r {
                Ok((b, words, all)) => {
                    let exp = if i == k { sh.board } else { match sh.step_boards.get(i) { Some(b) => *b, None => continue } };
                    if b != exp {
                        let clause = if i == k { "current_step_board" } else { "earlier_step_board" };
                        s.violate_game("C14", clause, o.rec, format!("step_asked={} current_step={} engine={} recorded={}", i, k, b.compact(), exp.compact()));
                    }
                    // the stored words themselves (a stale bit outside the occupancy is invisible to the per-piece views)
                    let ew = board_bits(&exp);
                    self.raw_word_comparisons += 1;
                    if words != ew || all != ew[1..].iter().fold(0u64, |a, w| a | w) {
                        let clause = if i == k { "current_step_board_words" } else { "earlier_step_board_words" };
                        s.violate_game("C14", clause, o.rec, format!("step_asked={} current_step={} engine words [gold, E, M, H, D, C, R]={:x?} all={:#x} recorded={:x?}", i, k, words, all, ew));
                    }
                }
                Err(p) => {
                    s.violate_game("C14", "step_board_query_panicked", o.rec, format!("step_asked={} current_step={} site={} msg={}", i, k, p.site, p.msg));
                }
            }
        }
        let r = guard("previous_piece_boards", || o.g.unwrap_play_phase().previous_piece_boards().iter().map(|pb| decode_board(pb.piece_board())).collect::<Vec<_>>());
        if let Ok(v) = r {
            if v != sh.step_boards {
                s.violate_game("C14", "previous_piece_boards", o.rec, format!("engine has {} boards, recorded {}", v.len(), sh.step_boards.len()));
            }
        }
        // the same questions to a copy made in place over another state
        {
            self.visited += 1;
            let mut dst = match self.scratch.take() {
                Some(d) => d,
                None => o.g.clone(),
            };
            if self.visited % 8 == 0 {
                if let Some(d1) = crate::decoy::play_decoys(o.g).into_iter().next() {
                    dst = d1;
                }
            }
            let copied = guard("clone_from", || {
                let mut d = dst;
                d.clone_from(o.g);
                d
            });
            if let Ok(d) = copied {
                self.clone_from_copies += 1;
                for i in 0..=k {
                    if let Ok(b) = guard("piece_board_for_step", || decode_board(d.piece_board_for_step(i))) {
                        let exp = if i == k { sh.board } else { match sh.step_boards.get(i) { Some(b) => *b, None => continue } };
                        if b != exp {
                            s.violate_game("C14", "step_board_of_clone_from_copy", o.rec, format!("a state overwritten in place with clone_from reports for step {} (current step {}) the board {} instead of {}", i, k, b.compact(), exp.compact()));
                        }
                    }
                }
                self.scratch = Some(d);
            }
        }
        if k > 0 {
            s.distinct(mix(sh.fingerprint(), sh.turn_start.fingerprint()));
            if s.want_sample() && (self.states[1] + self.states[2] + self.states[3]) % 4001 == 0 {
                s.sample(json!({"start": o.rec.start_text(), "actions": o.rec.actions_text(), "step": k, "boards": sh.step_boards.iter().map(|b| b.compact()).collect::<Vec<_>>()}));
            }
        }
    }
    fn finish(&mut self, s: &mut Sink) {
        for k in 0..4 {
            s.add(&format!("states_after_{}_steps", k), self.states[k]);
        }
        s.add("states_in_turns_with_capture", self.with_capture);
        s.add("clone_from_copies_checked", self.clone_from_copies);
        s.add("stored_board_words_compared", self.raw_word_comparisons);
    }
}
