//! Monitors C01–C07: rules, application, turn structure, result, repetition, summaries.

use crate::driver::*;
use crate::eng::*;
use crate::model::*;
use crate::sink::Sink;
use arimaa_engine_step::*;
use serde_json::json;

fn dup(codes: &[Code]) -> bool {
    let mut s = ActSet::new();
    codes.iter().any(|c| *c == u16::MAX || !s.insert(*c))
}
fn texts(codes: &[Code]) -> String {
    codes.iter().map(|c| if *c == u16::MAX { "?".to_string() } else { code_text(*c) }).collect::<Vec<_>>().join(" ")
}
fn pend_text(p: Pend) -> String {
    match p {
        Pend::None => "none".into(),
        Pend::Pull(s, t) => format!("pull({},{})", sq_text(s as usize), LETTERS[t as usize]),
        Pend::Push(s, t) => format!("push({},{})", sq_text(s as usize), LETTERS[t as usize]),
    }
}
pub fn state_text(sh: &Shadow) -> String {
    format!("board={} side={} step={} pend={} move={}", sh.board.compact(), if sh.gold { 'g' } else { 's' }, sh.step, pend_text(sh.pend), sh.moveno)
}

// ---------------------------------------------------------------------------------------------
/// C01 — offered steps are exactly the legal steps.
#[derive(Default)]
pub struct C01 {
    cells: [[u64; 3]; 4],
    push_pairs: [[u64; 6]; 6],
    pull_pairs: [[u64; 6]; 6],
    states: u64,
    frozen_states: u64,
    third_party_completion: u64,
    edge_pushpull: u64,
}
impl Monitor for C01 {
    fn twin_kinds(&self) -> u8 {
        1
    }
    fn on_twin_state(&mut self, _kind: u8, o: &Obs, s: &mut Sink) {
        // nothing judged in on_state depends on the history the twin was given
        self.on_state(o, s);
    }
    fn on_state(&mut self, o: &Obs, s: &mut Sink) {
        let sh = o.sh;
        self.states += 1;
        self.cells[sh.step.min(3) as usize][sh.pend.kind()] += 1;
        if dup(o.norep_codes) {
            s.violate_game("C01", "duplicate_in_norep_list", o.rec, format!("list=[{}] {}", texts(o.norep_codes), state_text(sh)));
        }
        if dup(o.rep_codes) {
            s.violate_game("C01", "duplicate_in_list", o.rec, format!("list=[{}] {}", texts(o.rep_codes), state_text(sh)));
        }
        let engine = ActSet::from_codes(o.norep_codes);
        let model = sh.board.legal(sh.gold, sh.step, sh.pend);
        s.max("longest_rule_only_list", o.norep_codes.len() as u64);
        if engine != model {
            let extra: Vec<String> = engine.iter().filter(|c| !model.contains(*c)).map(code_text).collect();
            let missing: Vec<String> = model.iter().filter(|c| !engine.contains(*c)).map(code_text).collect();
            let clause = if !extra.is_empty() && extra.iter().any(|t| t == "p") || missing.iter().any(|t| t == "p") { "pass_offered_wrongly" } else if !extra.is_empty() { "illegal_step_offered" } else { "legal_step_missing" };
            s.violate_game("C01", clause, o.rec, format!("offered-but-illegal=[{}] legal-but-missing=[{}] {}", extra.join(" "), missing.join(" "), state_text(sh)));
        }
        // every offered step can be continued: a mid-turn state always has a rule-only action
        if sh.step >= 1 && o.norep_codes.is_empty() {
            s.violate_game("C01", "mid_turn_state_without_continuation", o.rec, state_text(sh));
        }
        let any_frozen = (0..64).any(|i| sh.board.0[i] != 0 && is_gold(sh.board.0[i]) == sh.gold && sh.board.frozen(i));
        if any_frozen {
            self.frozen_states += 1;
        }
        if any_frozen || sh.pend != Pend::None {
            s.distinct(sh.fingerprint());
        }
        if let Pend::Push(sq, _) = sh.pend {
            if model.len() >= 2 {
                self.third_party_completion += 1;
            }
            let f = sq % 8;
            let r = sq / 8;
            if f == 0 || f == 7 || r == 0 || r == 7 {
                self.edge_pushpull += 1;
            }
        }
        if s.want_sample() && sh.pend != Pend::None && self.states % 977 == 0 {
            s.sample(json!({"start": o.rec.start_text(), "actions": o.rec.actions_text(), "state": state_text(sh), "offered_norep": texts(o.norep_codes), "model_legal": model.text()}));
        }
    }
    fn on_transition(&mut self, t: &Trans, _s: &mut Sink) {
        if let Some(a) = t.applied {
            if a.mover_enemy {
                let sh = t.before.sh;
                let ps = strength(a.moved_cell) as usize;
                if a.completed_pull {
                    if let Pend::Pull(_, st) = sh.pend {
                        self.pull_pairs[st as usize][ps] += 1;
                    }
                } else {
                    // strongest adjacent unfrozen friendly piece justifies the push
                    let sq = code_sq(t.code);
                    let mx = (0..4).filter_map(|d| nb(sq, d)).filter(|n| sh.board.0[*n] != 0 && is_gold(sh.board.0[*n]) == sh.gold && !sh.board.frozen(*n)).map(|n| strength(sh.board.0[n])).max();
                    if let Some(m) = mx {
                        self.push_pairs[m as usize][ps] += 1;
                    }
                }
            }
        }
    }
    fn finish(&mut self, s: &mut Sink) {
        s.add("states_judged", self.states);
        for st in 0..4 {
            for k in 0..3 {
                s.add(&format!("states_step{}_pend_{}", st, ["none", "pull", "push"][k]), self.cells[st][k]);
            }
        }
        let mut pushes = 0;
        let mut pulls = 0;
        s.declare_bits("push_type_pairs_seen_of_15");
        s.declare_bits("pull_type_pairs_seen_of_15");
        for a in 0..6 {
            for b in 0..6 {
                pushes += self.push_pairs[a][b];
                pulls += self.pull_pairs[a][b];
                if a > b {
                    if self.push_pairs[a][b] > 0 {
                        s.bit("push_type_pairs_seen_of_15", a * 6 + b);
                    }
                    if self.pull_pairs[a][b] > 0 {
                        s.bit("pull_type_pairs_seen_of_15", a * 6 + b);
                    }
                }
            }
        }
        s.add("push_starts", pushes);
        s.add("pull_completions", pulls);
        s.add("states_with_frozen_mover_piece", self.frozen_states);
        s.add("pending_push_with_two_or_more_completers", self.third_party_completion);
        s.add("pending_push_on_edge_square", self.edge_pushpull);
    }
}

// ---------------------------------------------------------------------------------------------
/// C02 — a step moves one piece one square; traps capture exactly.
#[derive(Default)]
pub struct C02 {
    transitions: u64,
    cap: [[[u64; 5]; 2]; 4],
    supported_on_trap: u64,
    passes: u64,
}
pub fn capture_cause(t: &Trans) -> usize {
    // 0 stepped in unsupported (own move), 1 last supporter stepped away (own move),
    // 2 pushed/pulled in (enemy piece displaced onto trap), 3 supporter was pushed/pulled away, 4 other
    let a = match t.applied {
        Some(a) => a,
        None => return 4,
    };
    let (tr, _) = a.captured[0];
    if a.to == tr {
        if a.mover_enemy {
            2
        } else {
            0
        }
    } else if a.mover_enemy {
        3
    } else {
        1
    }
}
impl Monitor for C02 {
    fn on_transition(&mut self, t: &Trans, s: &mut Sink) {
        // only actions from the offered list are judged
        if !t.before.rep_codes.contains(&t.code) {
            return;
        }
        self.transitions += 1;
        let sh = t.before.sh;
        if t.code == PASS {
            self.passes += 1;
            if t.obs_board != sh.board {
                s.violate_game("C02", "pass_changed_board", t.rec, format!("before={} after={}", sh.board.compact(), t.obs_board.compact()));
            }
            return;
        }
        if t.obs_board != t.exp_board {
            let diffs: Vec<String> = (0..64).filter(|i| t.obs_board.0[*i] != t.exp_board.0[*i]).map(|i| format!("{}:engine={} expected={}", sq_text(i), if t.obs_board.0[i] == 0 { '.' } else { cell_char(t.obs_board.0[i]) }, if t.exp_board.0[i] == 0 { '.' } else { cell_char(t.exp_board.0[i]) })).collect();
            let clause = if t.applied.map_or(false, |a| !a.captured.is_empty()) || t.obs_board.piece_count() != t.exp_board.piece_count() { "capture_mismatch" } else { "board_after_step_mismatch" };
            s.violate_game("C02", clause, t.rec, format!("action={} diffs=[{}] before={}", code_text(t.code), diffs.join(" "), sh.board.compact()));
        }
        // material never increases, per kind
        let kb = sh.board.counts();
        let ka = t.obs_board.counts();
        if (1..13).any(|k| ka[k] > kb[k]) {
            s.violate_game("C02", "material_increased", t.rec, format!("action={} before={} after={}", code_text(t.code), sh.board.compact(), t.obs_board.compact()));
        }
        if let Some(a) = t.applied {
            if !a.captured.is_empty() {
                let (tr, c) = a.captured[0];
                let ti = TRAPS.iter().position(|x| *x == tr).unwrap();
                self.cap[ti][is_gold(c) as usize][capture_cause(t)] += 1;
                s.distinct(mix(sh.board.fingerprint(), t.code as u64));
                if s.want_sample() {
                    s.sample(json!({"start": t.rec.start_text(), "actions": t.rec.actions_text(), "before": sh.board.compact(), "action": code_text(t.code), "after_engine": t.obs_board.compact(), "captured": format!("{}@{}", cell_char(c), sq_text(tr))}));
                }
            } else if TRAPS.contains(&a.to) {
                self.supported_on_trap += 1;
            }
        }
    }
    fn finish(&mut self, s: &mut Sink) {
        s.add("transitions_judged", self.transitions);
        s.add("passes_judged", self.passes);
        s.add("steps_onto_trap_with_support", self.supported_on_trap);
        let causes = ["stepped_in", "supporter_left", "displaced_in", "supporter_displaced", "other"];
        let mut total = 0;
        for ti in 0..4 {
            for g in 0..2 {
                for c in 0..5 {
                    total += self.cap[ti][g][c];
                    if c < 4 {
                        s.add(&format!("capture_{}_{}_{}", sq_text(TRAPS[ti]), if g == 1 { "gold" } else { "silver" }, causes[c]), self.cap[ti][g][c]);
                    }
                }
            }
        }
        s.add("captures", total);
    }
}

// ---------------------------------------------------------------------------------------------
/// C03 — turn / step / move-number bookkeeping.
#[derive(Default)]
pub struct C03 {
    transitions: u64,
    ends: [[[u64; 2]; 2]; 4], // kind(pass1,pass2,pass3,fourth) x colour x with capture
    max_moveno: u64,
}
impl Monitor for C03 {
    fn on_state(&mut self, o: &Obs, s: &mut Sink) {
        // at a turn start: nothing pending, fresh per-turn record
        let sh = o.sh;
        let r = guard("current_step", || {
            let pp = o.g.unwrap_play_phase();
            (o.g.current_step(), pp.push_pull_state(), pp.previous_piece_boards().len(), pp.piece_trapped_this_turn())
        });
        if let Ok((step, pps, prev, trapped)) = r {
            if step > 3 {
                s.violate_game("C03", "step_out_of_range", o.rec, format!("step={}", step));
            }
            if sh.step == 0 && step == 0 {
                if pps != PushPullState::None || prev != 0 || trapped {
                    s.violate_game("C03", "turn_start_not_fresh", o.rec, format!("status={:?} previous_boards={} trapped_flag={} {}", pps, prev, trapped, state_text(sh)));
                }
            }
        }
    }
    fn on_transition(&mut self, t: &Trans, s: &mut Sink) {
        if !t.before.rep_codes.contains(&t.code) {
            return;
        }
        self.transitions += 1;
        let sh = t.before.sh;
        if (t.obs_gold, t.obs_step, t.obs_moveno) != (t.exp_gold, t.exp_step, t.exp_moveno) {
            let clause = if t.obs_moveno != t.exp_moveno { "move_number" } else if t.obs_gold != t.exp_gold { "side_to_move" } else { "step_counter" };
            s.violate_game("C03", clause, t.rec, format!("action={} from side={} step={} move={}: engine side={} step={} move={}, expected side={} step={} move={}", code_text(t.code), sh.gold, sh.step, sh.moveno, t.obs_gold, t.obs_step, t.obs_moveno, t.exp_gold, t.exp_step, t.exp_moveno));
        }
        if t.turn_ended {
            let kind = if t.code == PASS { (sh.step as usize).saturating_sub(1).min(2) } else { 3 };
            let cap = sh.captured_this_turn || t.applied.map_or(false, |a| !a.captured.is_empty());
            self.ends[kind][sh.gold as usize][cap as usize] += 1;
            s.distinct(mix(mix(sh.turn_start.fingerprint(), t.obs_board.fingerprint()), kind as u64 * 2 + sh.gold as u64));
            if s.want_sample() && self.transitions % 1013 == 0 {
                s.sample(json!({"start": t.rec.start_text(), "actions": t.rec.actions_text(), "after": format!("side={} step={} move={}", t.obs_gold, t.obs_step, t.obs_moveno)}));
            }
        }
        self.max_moveno = self.max_moveno.max(t.obs_moveno);
    }
    fn finish(&mut self, s: &mut Sink) {
        s.add("transitions_judged", self.transitions);
        let kinds = ["pass_at_step1", "pass_at_step2", "pass_at_step3", "fourth_step"];
        for k in 0..4 {
            for g in 0..2 {
                for c in 0..2 {
                    s.add(&format!("turn_end_{}_{}_{}", kinds[k], if g == 1 { "gold" } else { "silver" }, if c == 1 { "with_capture" } else { "no_capture" }), self.ends[k][g][c]);
                }
            }
        }
        s.max("max_move_number_seen", self.max_moveno);
    }
}

// ---------------------------------------------------------------------------------------------
/// C04 — result at turn start follows the official order.
#[derive(Default)]
pub struct C04 {
    turn_starts: u64,
    classes: [u64; 32],
    goal_hits: [[[u64; 8]; 2]; 2], // [is mover][colour][file]
    immobile: u64,
    midturn_goal: u64,
    midturn_norabbit: u64,
    midturn_stuck: u64,
}
impl Monitor for C04 {
    fn twin_kinds(&self) -> u8 {
        7
    }
    fn on_twin_state(&mut self, _kind: u8, o: &Obs, s: &mut Sink) {
        // nothing judged in on_state depends on the history the twin was given
        self.on_state(o, s);
    }
    fn on_setup_state(&mut self, o: &SetupObs, s: &mut Sink) {
        s.count("setup_states_judged");
        if o.term.is_some() {
            s.violate_game("C04", "result_during_setup", o.rec, format!("is_terminal={}", term_text(o.term)));
        }
    }
    fn on_state(&mut self, o: &Obs, s: &mut Sink) {
        let sh = o.sh;
        if sh.step == 0 {
            self.turn_starts += 1;
            let exp = sh.board.result(sh.gold);
            let cls = sh.board.result_class(sh.gold);
            self.classes[cls as usize] += 1;
            if cls & 16 != 0 {
                self.immobile += 1;
            }
            for side in [true, false] {
                let base = if side { 0 } else { 56 };
                for f in 0..8 {
                    if sh.board.0[base + f] == cell(0, side) {
                        self.goal_hits[(side == sh.gold) as usize][side as usize][f] += 1;
                    }
                }
            }
            if cls != 0 {
                s.distinct(mix(sh.board.fingerprint(), sh.gold as u64));
            }
            // barely mobile movers: every legal step displaces an enemy piece (only pushes available)
            if cls == 0 {
                let legal = sh.board.legal(sh.gold, 0, Pend::None);
                let n = legal.len();
                if n > 0 && n <= 4 && legal.iter().all(|c| is_step(c) && sh.board.0[code_sq(c)] != 0 && is_gold(sh.board.0[code_sq(c)]) != sh.gold) {
                    s.count("only_pushes_available_positions");
                    s.distinct(mix(sh.board.fingerprint(), 404));
                    if n == 1 {
                        let c = legal.iter().next().unwrap();
                        let rabbit = strength(sh.board.0[code_sq(c)]) == 0;
                        // direction relative to the mover: 0 forward (towards the mover's goal), 2 backward
                        let rel = if sh.gold { code_dir(c) } else { opp(code_dir(c)) };
                        s.count(&format!("single_legal_action_is_push_of_{}_{}", if rabbit { "rabbit" } else { "non_rabbit" }, ["forward", "sideways", "backward", "sideways"][rel as usize]));
                    }
                }
            }
            if o.term != exp {
                let clause = match cls {
                    c if c & 3 != 0 => "goal_precedence",
                    c if c & 12 != 0 => "elimination_precedence",
                    c if c & 16 != 0 => "immobilisation",
                    _ => "spurious_result",
                };
                s.violate_game("C04", clause, o.rec, format!("engine={} expected={} conditions(goal_last,goal_mover,mover_no_rabbit,last_no_rabbit,immobile)={:05b} {}", term_text(o.term), term_text(exp), cls, state_text(sh)));
            }
            if s.want_sample() && cls != 0 && self.turn_starts % 101 == 0 {
                s.sample(json!({"start": o.rec.start_text(), "actions": o.rec.actions_text(), "state": state_text(sh), "conditions": format!("{:05b}", cls), "engine_result": term_text(o.term)}));
            }
        } else {
            // mid-turn: goal / elimination must not by itself end the game
            let goal = sh.board.goal(true) || sh.board.goal(false);
            let norab = !sh.board.has_rabbit(true) || !sh.board.has_rabbit(false);
            if goal {
                self.midturn_goal += 1;
            }
            if norab {
                self.midturn_norabbit += 1;
            }
            if o.term.is_some() && !o.rep_codes.is_empty() {
                s.violate_game("C04", "result_mid_turn_with_actions_offered", o.rec, format!("engine={} offered=[{}] {}", term_text(o.term), texts(o.rep_codes), state_text(sh)));
            }
            // ... and the one result a mid-turn state can have: nothing at all is offered, the mover has lost
            if o.rep_codes.is_empty() {
                self.midturn_stuck += 1;
                if o.term != Some(!sh.gold) {
                    s.violate_game("C04", "mid_turn_state_with_nothing_offered_is_not_a_loss_for_the_mover", o.rec, format!("engine={} offered=[] {}", term_text(o.term), state_text(sh)));
                }
            }
        }
    }
    fn finish(&mut self, s: &mut Sink) {
        s.add("turn_start_states_judged", self.turn_starts);
        s.declare_bits("condition_classes_seen");
        for c in 0..32 {
            if self.classes[c] > 0 {
                s.bit("condition_classes_seen", c);
                s.add(&format!("class_{:05b}", c), self.classes[c]);
            }
        }
        for m in 0..2 {
            for g in 0..2 {
                for f in 0..8 {
                    s.add(&format!("goal_{}_{}_{}", if m == 1 { "mover" } else { "last" }, if g == 1 { "gold" } else { "silver" }, (b'a' + f as u8) as char), self.goal_hits[m][g][f]);
                }
                s.add(&format!("goal_rabbit_{}_{}", if m == 1 { "mover" } else { "last_mover" }, if g == 1 { "gold" } else { "silver" }), self.goal_hits[m][g].iter().sum());
            }
        }
        s.add("immobilised_mover_positions", self.immobile);
        s.add("mid_turn_states_with_rabbit_on_goal", self.midturn_goal);
        s.add("mid_turn_states_with_rabbitless_side", self.midturn_norabbit);
        s.add("mid_turn_states_with_nothing_offered", self.midturn_stuck);
    }
}

// ---------------------------------------------------------------------------------------------
/// C05 — no completed turn leaves the board unchanged or makes a third repetition.
#[derive(Default)]
pub struct C05 {
    turn_ends: u64,
    second_occ: u64,
    longest: u32,
    after_capture: u64,
}
impl Monitor for C05 {
    fn on_transition(&mut self, t: &Trans, s: &mut Sink) {
        // the property is about games played through offered actions
        if !t.before.rep_codes.contains(&t.code) {
            return;
        }
        let sh = t.before.sh;
        if t.obs_gold == sh.gold {
            return; // turn did not end
        }
        self.turn_ends += 1;
        self.longest = self.longest.max(t.sh_after.turns);
        if t.obs_board == sh.turn_start {
            s.violate_game("C05", "turn_left_board_unchanged", t.rec, format!("turn_start={} ended_by={}", sh.turn_start.compact(), code_text(t.code)));
        }
        let before = sh.occurrences(&t.obs_board, t.obs_gold);
        if before >= 2 {
            s.violate_game("C05", "third_occurrence", t.rec, format!("board={} side_to_move={} earlier_occurrences={} ended_by={}", t.obs_board.compact(), if t.obs_gold { 'g' } else { 's' }, before, code_text(t.code)));
        }
        if before == 1 {
            self.second_occ += 1;
            s.distinct(mix(t.obs_board.fingerprint(), t.obs_gold as u64));
            if s.want_sample() {
                s.sample(json!({"start": t.rec.start_text(), "actions": t.rec.actions_text(), "second_occurrence_of": t.obs_board.compact()}));
            }
        }
        if sh.captured_this_turn {
            self.after_capture += 1;
        }
    }
    fn on_state(&mut self, o: &Obs, s: &mut Sink) {
        // attempted violations: turn-enders in the rule-only list that the exact history forbids
        let sh = o.sh;
        for c in o.norep_codes {
            let ends = *c == PASS || sh.step == 3;
            if !ends || *c == u16::MAX {
                continue;
            }
            let res = if *c == PASS { Some(sh.board) } else { sh.board.apply(sh.gold, sh.pend, code_sq(*c), code_dir(*c)).map(|a| a.board) };
            if let Some(b) = res {
                match sh.repetition_verdict(&b) {
                    1 => s.count(if *c == PASS { "attempt_pass_unchanged" } else { "attempt_step4_unchanged" }),
                    2 => {
                        s.count(if *c == PASS { "attempt_pass_third" } else { "attempt_step4_third" });
                        s.max("latest_turn_index_of_a_third_repetition_attempt", sh.turns as u64);
                        if sh.turns >= 256 {
                            s.count("third_repetition_attempts_after_turn_256");
                        }
                    }
                    _ => {}
                }
            }
        }
    }
    fn finish(&mut self, s: &mut Sink) {
        s.add("turn_ends_judged", self.turn_ends);
        s.add("second_occurrences", self.second_occ);
        s.add("turn_ends_after_capture_in_turn", self.after_capture);
        for k in ["attempt_pass_unchanged", "attempt_step4_unchanged", "attempt_pass_third", "attempt_step4_third", "third_repetition_attempts_after_turn_256"] {
            s.add(k, 0);
        }
        s.max("longest_game_turns", self.longest as u64);
    }
}

// ---------------------------------------------------------------------------------------------
/// C06 — the repetition filter withholds exactly the offending turn-enders (order preserved).
#[derive(Default)]
pub struct C06 {
    states: u64,
    per_step: [u64; 4],
    differ: u64,
    after_capture: u64,
    withheld: [[u64; 2]; 2],
}
impl Monitor for C06 {
    fn on_state(&mut self, o: &Obs, s: &mut Sink) {
        let sh = o.sh;
        self.states += 1;
        self.per_step[sh.step.min(3) as usize] += 1;
        if sh.captured_this_turn {
            self.after_capture += 1;
        }
        let mut expect: Vec<Code> = Vec::with_capacity(o.norep_codes.len());
        let mut any = false;
        for c in o.norep_codes {
            let ends = *c == PASS || sh.step == 3;
            let mut keep = true;
            if ends && *c != u16::MAX {
                let res = if *c == PASS { Some(sh.board) } else { sh.board.apply(sh.gold, sh.pend, code_sq(*c), code_dir(*c)).map(|a| a.board) };
                if let Some(b) = res {
                    let v = sh.repetition_verdict(&b);
                    if v != 0 {
                        keep = false;
                        any = true;
                        self.withheld[(*c != PASS) as usize][(v - 1) as usize] += 1;
                    }
                }
            }
            if keep {
                expect.push(*c);
            }
        }
        if any {
            self.differ += 1;
            s.distinct(mix(sh.fingerprint(), sh.turn_start.fingerprint()));
        }
        if expect.as_slice() != o.rep_codes {
            let withheld_wrongly: Vec<String> = expect.iter().filter(|c| !o.rep_codes.contains(c)).map(|c| code_text(*c)).collect();
            let offered_wrongly: Vec<String> = o.rep_codes.iter().filter(|c| !expect.contains(c)).map(|c| code_text(*c)).collect();
            let clause = if !offered_wrongly.is_empty() {
                "offending_turn_ender_offered"
            } else if !withheld_wrongly.is_empty() {
                if sh.step < 3 && !withheld_wrongly.iter().any(|t| t == "p") {
                    "non_turn_ending_action_withheld"
                } else {
                    "legal_turn_ender_withheld"
                }
            } else {
                "order_changed"
            };
            s.violate_game("C06", clause, o.rec, format!("offered=[{}] expected=[{}] rule_only=[{}] turn_start={} captured_this_turn={} {}", texts(o.rep_codes), texts(&expect), texts(o.norep_codes), sh.turn_start.compact(), sh.captured_this_turn, state_text(sh)));
        }
        if any && s.want_sample() && self.differ % 211 == 1 {
            s.sample(json!({"start": o.rec.start_text(), "actions": o.rec.actions_text(), "state": state_text(sh), "rule_only": texts(o.norep_codes), "offered": texts(o.rep_codes)}));
        }
    }
    fn finish(&mut self, s: &mut Sink) {
        s.add("states_judged", self.states);
        for i in 0..4 {
            s.add(&format!("states_at_step{}", i), self.per_step[i]);
        }
        s.add("states_where_lists_differ", self.differ);
        s.add("states_after_capture_in_turn", self.after_capture);
        s.add("withheld_pass_unchanged", self.withheld[0][0]);
        s.add("withheld_pass_third", self.withheld[0][1]);
        s.add("withheld_step4_unchanged", self.withheld[1][0]);
        s.add("withheld_step4_third", self.withheld[1][1]);
    }
}

// ---------------------------------------------------------------------------------------------
/// C07 — unfinished states always have an action; summary queries match the lists.
#[derive(Default)]
pub struct C07 {
    states: u64,
    dead_push: u64,
    dead_pass_only: u64,
    dead_other: u64,
    can_pass_differs: u64,
}
impl Monitor for C07 {
    fn twin_kinds(&self) -> u8 {
        7
    }
    fn on_twin_state(&mut self, _kind: u8, o: &Obs, s: &mut Sink) {
        // nothing judged in on_state depends on the history the twin was given
        self.on_state(o, s);
    }
    fn on_setup_state(&mut self, o: &SetupObs, s: &mut Sink) {
        s.count("setup_states_judged");
        if o.term.is_none() && o.offered.is_empty() {
            s.violate_game("C07", "setup_state_without_action", o.rec, format!("placed={}", o.model.placed));
        }
        let r = guard("summaries", || (o.g.can_pass(true), o.g.can_pass(false), o.g.has_move(o.g.piece_board()).is_none()));
        if let Ok((cp, cpn, hm)) = r {
            if cp || cpn {
                s.violate_game("C07", "can_pass_in_setup", o.rec, format!("can_pass(true)={} can_pass(false)={}", cp, cpn));
            }
            if hm != !o.offered.is_empty() {
                s.violate_game("C07", "has_move_vs_list_in_setup", o.rec, format!("has_move={} offered={}", hm, o.offered.len()));
            }
        }
    }
    fn on_state(&mut self, o: &Obs, s: &mut Sink) {
        let sh = o.sh;
        self.states += 1;
        if o.term.is_none() && o.rep_codes.is_empty() {
            s.violate_game("C07", "no_result_and_no_action", o.rec, format!("rule_only=[{}] {}", texts(o.norep_codes), state_text(sh)));
        }
        if sh.step > 0 {
            let exp = if o.rep_codes.is_empty() { Some(!sh.gold) } else { None };
            if o.term != exp {
                s.violate_game("C07", "mid_turn_result_vs_list", o.rec, format!("engine={} expected={} offered=[{}] {}", term_text(o.term), term_text(exp), texts(o.rep_codes), state_text(sh)));
            }
            if o.rep_codes.is_empty() {
                if matches!(sh.pend, Pend::Pull(..)) && o.norep_codes.iter().any(|c| is_step(*c) && sh.board.0[code_sq(*c)] != 0 && is_gold(sh.board.0[code_sq(*c)]) != sh.gold) {
                    s.count("dead_end_with_a_pull_among_the_withheld");
                }
                if matches!(sh.pend, Pend::Push(..)) {
                    if sh.board.apply(sh.gold, sh.pend, code_sq(o.norep_codes[0]), code_dir(o.norep_codes[0])).map_or(false, |a| a.board != sh.turn_start) {
                        s.count("dead_end_pending_push_completion_is_third_repetition");
                    }
                    self.dead_push += 1;
                } else if o.norep_codes == [PASS] {
                    self.dead_pass_only += 1;
                } else {
                    self.dead_other += 1;
                }
                s.distinct(mix(sh.fingerprint(), 77));
                if s.want_sample() {
                    s.sample(json!({"start": o.rec.start_text(), "actions": o.rec.actions_text(), "dead_end": state_text(sh), "rule_only": texts(o.norep_codes)}));
                }
            }
        }
        let r = guard("summaries", || (o.g.can_pass(true), o.g.can_pass(false), o.g.has_move(o.g.piece_board())));
        if let Ok((cp, cpn, hm)) = r {
            if cp != o.rep_codes.contains(&PASS) {
                s.violate_game("C07", "can_pass_true_vs_list", o.rec, format!("can_pass(true)={} offered=[{}] {}", cp, texts(o.rep_codes), state_text(sh)));
            }
            if cpn != o.norep_codes.contains(&PASS) {
                s.violate_game("C07", "can_pass_false_vs_list", o.rec, format!("can_pass(false)={} rule_only=[{}] {}", cpn, texts(o.norep_codes), state_text(sh)));
            }
            if cp != cpn {
                self.can_pass_differs += 1;
                s.distinct(mix(sh.fingerprint(), 78));
            }
            if hm.is_none() != !o.rep_codes.is_empty() {
                s.violate_game("C07", "has_move_vs_list", o.rec, format!("has_move={} offered=[{}] rule_only=[{}] {}", hm.is_none(), texts(o.rep_codes), texts(o.norep_codes), state_text(sh)));
            }
            if let Some(t) = hm {
                let loser_is_mover = (t == Terminal::SilverWin) == sh.gold;
                if !loser_is_mover {
                    s.violate_game("C07", "has_move_result_not_loss_for_mover", o.rec, format!("has_move={:?} {}", t, state_text(sh)));
                }
            }
        }
    }
    fn finish(&mut self, s: &mut Sink) {
        s.add("states_judged", self.states);
        s.add("dead_end_pending_push_all_completions_withheld", self.dead_push);
        s.add("dead_end_only_pass_and_withheld", self.dead_pass_only);
        s.add("dead_end_every_turn_ender_withheld", self.dead_other);
        s.add("states_can_pass_true_ne_false", self.can_pass_differs);
        s.add("dead_end_with_a_pull_among_the_withheld", 0);
        s.add("dead_end_pending_push_completion_is_third_repetition", 0);
    }
}
