//! C18 — three observers: auto-trait probe (build), result oracle under native stress,
//! race detectors (ThreadSanitizer build and Miri many-seeds) on the bare workload.

use crate::driver::*;
use crate::eng::*;
use crate::gen;
use crate::record::*;
use crate::rng::Rng;
use crate::runner::*;
use crate::sink::Sink;
use arimaa_engine_step::*;
use serde_json::{json, Map, Value};
use std::collections::HashSet;
use std::process::Command;

struct NullMon;
impl Monitor for NullMon {}

/// Roots with long shared histories: W3 reverser games played through the engine.
fn w3_root(rng: &mut Rng, turns: u32, mid_turn: bool) -> Option<GameState> {
    let (b, gold, mv) = gen::w3(rng);
    let mut g = inject(&b, gold, mv);
    let mut sh = Shadow::start(b, gold, mv);
    let mut pol = Policy::Reverser;
    let mut sp = 0usize;
    let mut last_start = g.clone();
    loop {
        let q = observe(&g).ok()?;
        if (sh.step == 0 && q.term.is_some()) || q.rep.is_empty() {
            return Some(last_start);
        }
        if sh.turns >= turns && (sh.step == 0) != mid_turn {
            return Some(g);
        }
        if sh.turns >= turns + 2 {
            return Some(g);
        }
        if sh.step == 0 {
            last_start = g.clone();
        }
        let c = choose(&mut pol, &mut sp, rng, &q, &sh)?;
        let out = step(&g, &sh, c).ok()?;
        g = out.after;
        sh = out.sh_after;
    }
}

/// Final state of a W5b saturated-neighbourhood script: step 3, the pass and every own step are
/// withheld (their positions occurred twice), a pull may remain: several history lookups with
/// different answers per query.
fn saturated_root(rng: &mut Rng) -> Option<GameState> {
    let (b, gold, script, _) = crate::workloads::saturated_script(rng)?;
    let mut g = inject(&b, gold, 2);
    for c in script {
        let a = code_act(c);
        if !g.valid_actions().contains(&a) {
            return None;
        }
        g = g.take_action(&a);
    }
    Some(g)
}

/// Sibling games: a lone mobile piece X walks v-d, d-v-u, u-v-d, d-v-u in one game and v-w, w-v-u, u-v-d, d-v-u in the other
/// (the other side shuffles a far-away piece): both end in the same position after the same number
/// of turns (same history length, same newest entry), but 'X on d' (two steps from the final square, so that a four-step turn can recreate it) has occurred twice in the first
/// and once in the second - what one of them may not repeat, the other may.
fn sibling_roots(rng: &mut Rng) -> Vec<GameState> {
    sibling_roots_only(rng, None)
}
/// `only`: build just that one of the two sibling games (the other one never exists in this process while it is built).
fn sibling_roots_only(rng: &mut Rng, only: Option<usize>) -> Vec<GameState> {
    use crate::model::*;
    for _ in 0..40 {
        // u centre, v beside it, d and w the two squares beyond v on either side (both two steps from u)
        let u = [26usize, 27, 28, 29, 34, 35, 36, 37][rng.below(8)];
        let (ur, uc) = ((u / 8) as i32, (u % 8) as i32);
        let dc: i32 = if rng.chance(1, 2) { 1 } else { -1 };
        let dr: i32 = if rng.chance(1, 2) { 1 } else { -1 };
        let v = (ur * 8 + uc + dc) as usize;
        let d = ((ur + dr) * 8 + uc + dc) as usize;
        let w = ((ur - dr) * 8 + uc + dc) as usize;
        if [u, v, d, w].iter().any(|q| TRAPS.contains(q)) {
            continue;
        }
        let (za, zb) = if uc + dc < 4 { (31usize, 39usize) } else { (24usize, 32usize) };
        let gold = rng.chance(1, 2);
        let mut b = MBoard::empty();
        b.0[56] = cell(0, true);
        b.0[48] = cell(1 + rng.below(2) as u8, false);
        b.0[7] = cell(0, false);
        b.0[za] = cell(2 + rng.below(3) as u8, false);
        b.0[v] = cell(1 + rng.below(5) as u8, true);
        let flip = !gold;
        let tb = b.transform(false, flip);
        let step = |from: usize, to: usize| -> Option<Code> { (0..4u8).find(|k| nb(from, *k) == Some(to)).map(|k| map_code(step_code(from, k), false, flip)) };
        let mut roots = vec![];
        // game A: X v-d, d-v-u, u-v-d, d-v-u ; game B: X v-w, w-v-u, u-v-d, d-v-u
        for (which, first) in [d, w].into_iter().enumerate() {
            if only.map_or(false, |o| o != which) {
                continue;
            }
            let turns: [Vec<usize>; 4] = [vec![v, first], vec![first, v, u], vec![u, v, d], vec![d, v, u]];
            let mut script: Vec<Code> = vec![];
            let mut z = za;
            let mut ok = true;
            for t in turns.iter() {
                for k in 0..t.len() - 1 {
                    match step(t[k], t[k + 1]) {
                        Some(c) => script.push(c),
                        None => ok = false,
                    }
                }
                script.push(PASS);
                let zt = if z == za { zb } else { za };
                match step(z, zt) {
                    Some(c) => script.push(c),
                    None => ok = false,
                }
                script.push(PASS);
                z = zt;
            }
            if !ok {
                break;
            }
            let mut g = inject(&tb, gold, 2 + rng.below(30) as u64);
            for c in &script {
                let a = code_act(*c);
                if !g.valid_actions().contains(&a) {
                    ok = false;
                    break;
                }
                g = g.take_action(&a);
            }
            if ok {
                roots.push(g);
            }
        }
        if roots.len() == 2 || (only.is_some() && roots.len() == 1) {
            return roots;
        }
    }
    vec![]
}


/// Fresh scripted roots: a repetition script (long cycler, saturated neighbourhood, take-back) is
/// first validated on a scratch game to find its longest legal prefix, then REPLAYED with take_action
/// only, so that nobody has asked the returned state - or any state of its turn - a rule question
/// yet. The final state is one step (a pass or a fourth step) away from a third occurrence.
fn fresh_scripted_root(rng: &mut Rng, sel: u64) -> Option<(GameState, &'static str)> {
    use crate::workloads as w;
    let (b, gold, mv, script, label): (crate::model::MBoard, bool, u64, Vec<crate::model::Code>, &'static str) = match sel % 4 {
        0 | 1 => {
            let (b, gold, mv) = w::long_cycler_position(rng);
            let k = if sel % 4 == 0 { 4 + rng.below(40) } else { 60 + rng.below(120) };
            (b, gold, mv, w::long_cycler_script(&b, gold, k, rng)?, "long_cycler")
        }
        2 => {
            let (b, gold, script, _) = w::saturated_script(rng)?;
            (b, gold, 2, script, "saturated")
        }
        _ => {
            let (b, gold, script, _) = w::takeback_script(rng)?;
            (b, gold, 2, script, "takeback")
        }
    };
    // validation pass on a scratch game
    let mut g = inject(&b, gold, mv);
    let mut legal = 0usize;
    for c in &script {
        let a = code_act(*c);
        if !g.valid_actions().contains(&a) {
            break;
        }
        g = g.take_action(&a);
        legal += 1;
    }
    drop(g);
    if legal < 8 {
        return None;
    }
    // query-free replay
    let mut g = inject(&b, gold, mv);
    for c in &script[..legal] {
        g = g.take_action(&code_act(*c));
    }
    if !g.is_play_phase() || g.current_step() == 0 {
        // the whole script was legal (nothing withheld at its end): not a root of interest
        return None;
    }
    Some((g, label))
}


/// A state at step 3 (or earlier if the model finds no further step) reached from a random position by
/// steps chosen with the MODEL's legal sets - the engine is only asked to apply them, so the turn has
/// never been queried and has no successor turn yet.
fn fresh_step3_root(rng: &mut Rng) -> Option<GameState> {
    use crate::model::*;
    let (b, gold, mv) = if rng.chance(1, 2) { gen::w2(rng) } else { gen::w1(rng) };
    let mut g = inject(&b, gold, mv);
    let mut cur = b;
    let mut pend = Pend::None;
    for st in 0..3u8 {
        let cands: Vec<Code> = cur.legal(gold, st, pend).iter().filter(|c| is_step(*c)).collect();
        if cands.is_empty() {
            return None;
        }
        let c = cands[rng.below(cands.len())];
        let a = cur.apply(gold, pend, code_sq(c), code_dir(c))?;
        cur = a.board;
        pend = a.pend;
        g = g.take_action(&code_act(c));
    }
    Some(g)
}

fn setup_root(rng: &mut Rng) -> GameState {
    let mut g = GameState::initial();
    let n = rng.below(32);
    for _ in 0..n {
        let a = g.valid_actions();
        g = g.take_action(&a[rng.below(a.len())]);
    }
    g
}

fn run_cmd(mut c: Command) -> (Option<i32>, String, String) {
    match c.output() {
        Ok(o) => (o.status.code(), String::from_utf8_lossy(&o.stdout).to_string(), String::from_utf8_lossy(&o.stderr).to_string()),
        Err(e) => (None, String::new(), format!("spawn failed: {}", e)),
    }
}
fn tail(s: &str, n: usize) -> String {
    let v: Vec<&str> = s.lines().collect();
    v[v.len().saturating_sub(n)..].join("\n")
}

pub fn c18(cfg: &Cfg) -> i32 {
    let mut sink = Sink::new();
    let mut inconclusive: Vec<String> = vec![];
    let mut extra = Map::new();
    let vd = cfg.verif_dir.clone();
    let target = std::env::var("CARGO_TARGET_DIR").map(std::path::PathBuf::from).unwrap_or_else(|_| vd.join("target"));

    // ---- observer 1: auto-trait probe (a build-time observation) ----
    {
        let mut c = Command::new("cargo");
        c.args(["build", "--offline"]).current_dir(vd.join("probe_autotraits")).env("CARGO_TARGET_DIR", target.join("probe")).env("CARGO_NET_OFFLINE", "true").env("CARGO_TERM_COLOR", "never");
        let (code, _so, se) = run_cmd(c);
        let ok = code == Some(0);
        let e0277 = se.contains("E0277") && (se.contains("Send") || se.contains("Sync"));
        extra.insert("autotrait_probe".into(), json!({"compiled": ok, "diagnostic_tail": if ok { String::new() } else { tail(&se, 30) }}));
        sink.count("autotrait_probe_builds");
        if ok {
            sink.add("types_probed_send_sync", 15);
        } else if e0277 {
            let first = se.lines().find(|l| l.contains("cannot be sent") || l.contains("cannot be shared") || l.contains("E0277")).unwrap_or("").to_string();
            sink.violate("C18", "public_type_not_send_sync", format!("C18|autotrait|{}", first), format!("the auto-trait probe crate does not compile: {}", tail(&se, 12).replace('\n', " / ")), json!({"kind": "threads", "observer": "autotrait_probe", "diagnostic": tail(&se, 40)}));
        } else {
            inconclusive.push(format!("auto-trait probe failed to build for another reason: {}", tail(&se, 6).replace('\n', " / ")));
        }
    }

    // ---- observer 2: result oracle under native stress ----
    let rounds = cfg.n(6000, 200_000);
    let lanes = 4usize;
    let lane_sinks: Vec<(Sink, HashSet<Vec<usize>>)> = std::thread::scope(|sc| {
        let hs: Vec<_> = (0..lanes)
            .map(|lane| {
                sc.spawn(move || {
                    let mut s = Sink::new();
                    let mut orders: HashSet<Vec<usize>> = HashSet::new();
                    let mut rng = Rng::new(cfg.seed, 0x1800 + lane as u64);
                    let mut r = lane as u64;
                    while r < rounds {
                        let kind = r % 7;
                        let root = match kind {
                            0 => c18bare::build_root(cfg.seed.wrapping_mul(1000).wrapping_add(r), (r % 40) as u32, false),
                            1 => c18bare::build_root(cfg.seed.wrapping_mul(1000).wrapping_add(r), (r % 25) as u32, true),
                            2 => match w3_root(&mut rng, 20 + (r % 200) as u32, false) {
                                Some(g) => g,
                                None => {
                                    r += lanes as u64;
                                    continue;
                                }
                            },
                            3 => match w3_root(&mut rng, 10 + (r % 60) as u32, true) {
                                Some(g) => g,
                                None => {
                                    r += lanes as u64;
                                    continue;
                                }
                            },
                            4 => setup_root(&mut rng),
                            5 => c18bare::build_repetition_root(r),
                            _ => match saturated_root(&mut rng) {
                                Some(g) => g,
                                None => {
                                    r += lanes as u64;
                                    continue;
                                }
                            },
                        };
                        let depth = if kind == 4 { 2 } else { 1 + (r % 2) as u32 };
                        let threads = [4usize, 8, 16, 32, 6][((r / 7) % 5) as usize];
                        let hammer = if kind >= 5 { 40 } else { 2 };
                        let expected = c18bare::sequential(&root, depth);
                        let rep = c18bare::round(&root, depth, threads, (r / 7) as u32, cfg.seed ^ r, true, hammer, &expected);
                        s.count("rounds");
                        s.count(["rounds_root_after_setup_and_turns", "rounds_root_mid_turn", "rounds_root_long_shared_history", "rounds_root_long_history_mid_turn", "rounds_root_setup_phase", "rounds_root_third_repetition_at_step3", "rounds_root_saturated_all_withheld"][kind as usize]);
                        s.count(["rounds_shared_arc", "rounds_borrowed_with_droppers", "rounds_moved_clones"][((r / 7) % 3) as usize]);
                        s.add("thread_expansions", rep.threads as u64);
                        s.add("root_queries_hammered", (hammer as u64) * rep.threads as u64);
                        s.add("nodes_compared", (rep.nodes * rep.threads) as u64);
                        s.max("longest_shared_history", root.as_play_phase().map_or(0, |p| p.hash_history().len() as u64));
                        orders.insert(rep.finish_order.clone());
                        if rep.mismatching_threads > 0 || rep.root_changed {
                            let clause = if rep.root_changed { "shared_state_modified" } else { "concurrent_result_ne_sequential" };
                            s.violate("C18", clause, format!("C18|{}|kind{}|round{}", clause, kind, r), format!("round {} (root kind {}, {} threads, depth {}): {} threads disagreed with the sequential expansion, root_changed={}, first mismatch (path, expected, got)={:?}", r, kind, threads, depth, rep.mismatching_threads, rep.root_changed, rep.first_mismatch), json!({"kind": "threads", "observer": "native_stress", "round": r, "root_kind": kind, "threads": threads, "depth": depth, "seed": cfg.seed, "root": root.to_string()}));
                        }
                        if s.want_sample() && r % 997 == lane as u64 {
                            s.sample(json!({"round": r, "root_kind": kind, "threads": threads, "depth": depth, "nodes_per_thread": rep.nodes, "finish_order": rep.finish_order, "root": root.to_string()}));
                        }
                        r += lanes as u64;
                    }
                    // lists sharing long tails dropped from many threads (List::drop under contention)
                    for k in 0..cfg.n(20, 400) {
                        let n = 4 + (k % 12) as usize;
                        let t = 1000 + (k as usize % 7) * 30_000;
                        let total = c18bare::shared_tail_lists(t, n);
                        s.count("shared_tail_list_rounds");
                        if total != n * (t + 16) {
                            s.violate("C18", "shared_tail_list_length", format!("C18|shared_tail|{}|{}", t, n), format!("lists sharing a {}-node tail: total length {} != {}", t, total, n * (t + 16)), json!({"kind": "threads", "observer": "shared_tail_lists"}));
                        }
                    }
                    // pool rounds: thousands of different states queried by all threads at once in different orders
                    for k in 0..cfg.n(6, 120) {
                        let mut roots: Vec<GameState> = vec![c18bare::build_repetition_root(k), c18bare::build_root(cfg.seed ^ k, 3 + (k % 20) as u32, k % 2 == 0)];
                        if let Some(g) = saturated_root(&mut rng) {
                            // the step-2 predecessors of a saturated final state are step-3 states with mixed answers
                            roots.push(g);
                        }
                        if let Some(g) = w3_root(&mut rng, 10 + (k % 30) as u32, false) {
                            roots.push(g);
                        }
                        // a sibling game built while nothing else exists must equal the same game built while its sibling
                        // (same position after the same number of turns, another past) is kept alive by another thread
                        {
                            let snap = rng.clone();
                            let alone: Vec<u64> = sibling_roots_only(&mut snap.clone(), Some(1)).iter().map(|g| c18bare::fingerprint(g, true)).collect();
                            let keeper = {
                                let mut r = snap.clone();
                                std::thread::spawn(move || sibling_roots_only(&mut r, Some(0))).join().unwrap_or_default()
                            };
                            let with: Vec<u64> = sibling_roots_only(&mut snap.clone(), Some(1)).iter().map(|g| c18bare::fingerprint(g, true)).collect();
                            if !alone.is_empty() && !keeper.is_empty() && !with.is_empty() {
                                s.count("sibling_built_alone_vs_beside_live_sibling");
                                if alone != with {
                                    s.violate("C18", "concurrent_result_ne_sequential", format!("C18|sibling_alone|{}", k), format!("round {}: a game built while its sibling game (same position after the same number of turns, another past; built by another thread and still alive) exists differs from the same game built alone (whole history and all answers compared)", k), json!({"kind": "threads", "observer": "sibling_alone_vs_beside", "round": k, "seed": cfg.seed}));
                                }
                            }
                            drop(keeper);
                        }
                        let sib = sibling_roots(&mut rng);
                        if !sib.is_empty() {
                            s.count("pool_rounds_with_sibling_games");
                            // duel: each thread hammers the step-3 states of ITS sibling game only
                            let groups: Vec<Vec<GameState>> = sib.iter().map(|r| c18bare::states_at_step(r, 3, 60)).collect();
                            if groups.iter().all(|g| !g.is_empty()) {
                                let (bad, n) = c18bare::duel_round(&groups, 4 + (k as usize % 3) * 2, 30);
                                s.add("sibling_duel_queries", n as u64);
                                s.add("nodes_compared", n as u64);
                                if bad > 0 {
                                    s.violate("C18", "concurrent_result_ne_sequential", format!("C18|duel|{}", k), format!("sibling duel {}: {} of {} answers differ from the sequential ones while other threads query the states of a sibling game (same position, same history length, different history)", k, bad, n), json!({"kind": "threads", "observer": "sibling_duel", "round": k, "seed": cfg.seed}));
                                }
                            }
                        }
                        roots.extend(sib);
                        let (bad, n) = c18bare::pool_round(&roots, 3, 8 + (k as usize % 3) * 8, cfg.seed ^ (k << 8), 2, 6000);
                        s.count("pool_rounds");
                        s.add("pool_states_queried_concurrently", (n * 2 * (8 + (k as usize % 3) * 8)) as u64);
                        s.add("nodes_compared", (n * 2 * (8 + (k as usize % 3) * 8)) as u64);
                        if bad > 0 {
                            s.violate("C18", "concurrent_result_ne_sequential", format!("C18|pool|{}", k), format!("pool round {}: {} answers on a pool of {} different states queried concurrently differ from the sequential answers", k, bad, n), json!({"kind": "threads", "observer": "pool_round", "round": k, "seed": cfg.seed}));
                        }
                    }
                    // fresh rounds: the first rule queries ever made in a turn are made by all threads at once
                    for k in 0..cfg.n(150, 6000) {
                        let (root, label) = match fresh_scripted_root(&mut rng, k) {
                            Some(x) => x,
                            None => {
                                s.count("fresh_root_construction_failed");
                                continue;
                            }
                        };
                        let threads = [8usize, 12, 16][(k % 3) as usize];
                        let hist = root.as_play_phase().map_or(0, |p| p.hash_history().len() as u64);
                        let rep = c18bare::round_fresh(&root, 1, threads, (k / 3) as u32, cfg.seed ^ k);
                        s.count("fresh_rounds");
                        s.count(&format!("fresh_rounds_{}", label));
                        if hist >= 16 {
                            s.count("fresh_rounds_history_ge_16");
                        }
                        if hist >= 200 {
                            s.count("fresh_rounds_history_ge_200");
                        }
                        s.max("longest_fresh_root_history", hist);
                        s.add("nodes_compared", (rep.nodes * rep.threads) as u64);
                        s.add("fresh_first_queries_released_together", rep.threads as u64);
                        if rep.mismatching_threads > 0 || rep.root_changed {
                            let clause = if rep.root_changed { "shared_state_modified" } else { "concurrent_result_ne_sequential" };
                            s.violate("C18", clause, format!("C18|fresh|{}|{}", label, k), format!("fresh round {} ({} root, history {} entries, {} threads released together onto a state of a turn nobody had queried): {} threads disagree with the sequential expansion computed afterwards, root_changed={}, first mismatch (path, expected, got)={:?}", k, label, hist, threads, rep.mismatching_threads, rep.root_changed, rep.first_mismatch), json!({"kind": "threads", "observer": "fresh_round", "round": k, "threads": threads, "seed": cfg.seed, "root": root.to_string()}));
                        }
                    }
                    // simultaneous children: different turn-ending actions of a never-expanded state at the same instant
                    for k in 0..cfg.n(300, 9000) {
                        let root = match if k % 3 == 0 { fresh_scripted_root(&mut rng, k / 3).map(|x| x.0) } else { fresh_step3_root(&mut rng) } {
                            Some(r) => r,
                            None => continue,
                        };
                        let n = [4usize, 8, 12, 16][(k % 4) as usize];
                        let (bad, cmp) = c18bare::simultaneous_children(&root, n);
                        if cmp == 0 {
                            continue;
                        }
                        s.count("simultaneous_children_rounds");
                        s.add("simultaneous_children_compared", cmp as u64);
                        s.add("nodes_compared", cmp as u64);
                        if bad > 0 {
                            s.violate("C18", "concurrent_result_ne_sequential", format!("C18|simultaneous_children|{}", k), format!("round {}: {} of {} children created at the same instant from one never-expanded state (different offered actions, {} threads) differ from the sequentially created ones (whole history compared)", k, bad, cmp, n), json!({"kind": "threads", "observer": "simultaneous_children", "round": k, "threads": n, "seed": cfg.seed, "root": root.to_string()}));
                        }
                    }
                    // history duel: the same state with two different pasts (same hash, same history length, same
                    // newest entry), each hammered by its own threads at the same time
                    for k in 0..cfg.n(40, 1200) {
                        let root = match fresh_scripted_root(&mut rng, k) {
                            Some(r) => r.0,
                            None => continue,
                        };
                        let twins = crate::decoy::history_decoys(&root);
                        if twins.is_empty() {
                            continue;
                        }
                        let mut groups: Vec<Vec<GameState>> = vec![vec![root]];
                        for t in twins {
                            groups.push(vec![t]);
                        }
                        // the same look-alikes moved through ONE storage slot per thread
                        {
                            let flat: Vec<GameState> = groups.iter().map(|g| g[0].clone()).collect();
                            let (bad, n) = c18bare::slot_round(&flat, 4, 6);
                            s.add("slot_round_queries", n as u64);
                            s.add("nodes_compared", n as u64);
                            if bad > 0 {
                                s.violate("C18", "concurrent_result_ne_sequential", format!("C18|slot_round|{}", k), format!("slot round {}: {} of {} answers differ from the ones computed beforehand when look-alike states (same position, other pasts) are moved in turn into one state variable per thread and queried there", k, bad, n), json!({"kind": "threads", "observer": "slot_round", "round": k, "seed": cfg.seed}));
                            }
                        }
                        let (bad, n) = c18bare::duel_round(&groups, 4 + (k as usize % 3) * 4, 60);
                        s.count("history_duel_rounds");
                        s.add("history_duel_queries", n as u64);
                        s.add("nodes_compared", n as u64);
                        if bad > 0 {
                            s.violate("C18", "concurrent_result_ne_sequential", format!("C18|history_duel|{}", k), format!("history duel {}: {} of {} answers differ from the sequential ones while other threads query the same state with another past (same hash, same history length, same newest entry)", k, bad, n), json!({"kind": "threads", "observer": "history_duel", "round": k, "seed": cfg.seed}));
                        }
                    }
                    // migration rounds: states built on one thread are continued on another
                    for k in 0..cfg.n(40, 1200) {
                        let n = 4 + (k as usize % 3) * 2;
                        let starts: Vec<GameState> = (0..n)
                            .map(|_| {
                                let (b, gold, mv) = if rng.chance(2, 3) { gen::w2(&mut rng) } else { gen::w1(&mut rng) };
                                inject(&b, gold, mv)
                            })
                            .collect();
                        let (bad, cmp) = c18bare::migration_round(&starts, 60, cfg.seed ^ (k << 16));
                        s.count("migration_rounds");
                        s.add("migrated_states_successors_compared", cmp as u64);
                        s.add("nodes_compared", cmp as u64);
                        if bad > 0 {
                            s.violate("C18", "concurrent_result_ne_sequential", format!("C18|migration|{}", k), format!("migration round {}: {} states built by one thread and continued by another (which meanwhile queries its own states) produced successors different from the sequential ones ({} successors compared)", k, bad, cmp), json!({"kind": "threads", "observer": "migration_round", "round": k, "threads": n, "seed": cfg.seed}));
                        }
                    }
                    // last owners dropping at the same instant: stack span while the nodes are freed
                    for k in 0..cfg.n(6, 60) {
                        let n = 1500 + (k as usize % 3) * 1500;
                        let (span, _) = c18bare::concurrent_last_owner_drop(n, 2 + (k as usize % 3), 40);
                        s.add("simultaneous_last_owner_drop_rounds", 40);
                        s.max("max_stack_span_bytes_in_simultaneous_drop", span as u64);
                        if span > 8 * 1024 {
                            s.violate("C18", "simultaneous_drop_recurses", format!("C18|simultaneous_drop|{}", n), format!("{} threads dropping the last handles of a {}-node list at the same instant: the nodes were freed over a stack span of {} bytes (an iterative drop needs a constant few hundred)", 2 + (k as usize % 3), n, span), json!({"kind": "threads", "observer": "simultaneous_last_owner_drop", "nodes": n, "span_bytes": span}));
                        }
                    }
                    (s, orders)
                })
            })
            .collect();
        hs.into_iter().map(|h| h.join().unwrap()).collect()
    });
    let mut all_orders: HashSet<Vec<usize>> = HashSet::new();
    for (s, o) in lane_sinks {
        sink.merge(s);
        all_orders.extend(o);
    }
    sink.add("distinct_thread_completion_orders", all_orders.len() as u64);
    for (i, o) in all_orders.iter().enumerate() {
        sink.distinct(crate::model::fnv(&o.iter().map(|x| *x as u8).collect::<Vec<u8>>()) ^ i as u64 * 0);
    }

    // ---- observer 3a: ThreadSanitizer ----
    {
        let tdir = target.join("sanit-tsan");
        let mut c = Command::new("cargo");
        c.args(["+nightly", "build", "-Zbuild-std", "--target", "x86_64-unknown-linux-gnu", "--release", "--offline"]).current_dir(vd.join("sanit")).env("RUSTFLAGS", "-Zsanitizer=thread").env("CARGO_TARGET_DIR", &tdir).env("CARGO_NET_OFFLINE", "true").env("CARGO_TERM_COLOR", "never");
        let (code, _so, se) = run_cmd(c);
        if code != Some(0) {
            inconclusive.push(format!("ThreadSanitizer build failed: {}", tail(&se, 5).replace('\n', " / ")));
        } else {
            let bin = tdir.join("x86_64-unknown-linux-gnu/release/c18bare");
            let runs = cfg.n(12, 200);
            let mut reports = 0u64;
            let mut sites: std::collections::BTreeSet<String> = Default::default();
            let mut tsan_nodes = 0u64;
            let outs: Vec<(u64, Option<i32>, String, String)> = std::thread::scope(|sc| {
                let hs: Vec<_> = (0..runs)
                    .map(|k| {
                        let bin = bin.clone();
                        sc.spawn(move || {
                            let mut c = Command::new(&bin);
                            // <rounds> <threads> <depth> <seed> <history_turns> <tail_len>
                            c.args(["6", &format!("{}", 4 + (k % 3) * 4), "2", &format!("{}", cfg.seed * 1000 + k), &format!("{}", 5 + (k % 4) * 15), &format!("{}", 2000 + k * 500), "0", "0", if k % 2 == 0 { "1" } else { "0" }]).env("TSAN_OPTIONS", "halt_on_error=0 report_signal_unsafe=0");
                            let (code, so, se) = run_cmd(c);
                            (k, code, so, se)
                        })
                    })
                    .collect();
                hs.into_iter().map(|h| h.join().unwrap()).collect()
            });
            for (k, code, so, se) in outs {
                sink.count("tsan_runs");
                if let Some(l) = so.lines().find(|l| l.starts_with("c18bare ")) {
                    if let Some(n) = l.split("nodes_compared=").nth(1).and_then(|x| x.split_whitespace().next()).and_then(|x| x.parse::<u64>().ok()) {
                        tsan_nodes += n;
                    }
                }
                let n = se.matches("WARNING: ThreadSanitizer").count() as u64;
                if n > 0 || code == Some(66) {
                    reports += n.max(1);
                    for blk in se.split("WARNING: ThreadSanitizer").skip(1) {
                        let site = blk.lines().find(|l| l.contains("arimaa_engine_step") || l.contains("/repo/src")).unwrap_or("?").trim().to_string();
                        sites.insert(site);
                    }
                    if sink.violations.len() < 3 {
                        sink.violate("C18", "thread_sanitizer_report", format!("C18|tsan|{:?}", sites.iter().next()), format!("ThreadSanitizer run {} reported {} warning(s), exit {:?}: {}", k, n, code, tail(&se, 25).replace('\n', " / ")), json!({"kind": "threads", "observer": "tsan", "run": k, "report": tail(&se, 60)}));
                    } else {
                        sink.violation_count += 1;
                    }
                } else if code == Some(1) {
                    sink.violate("C18", "concurrent_result_ne_sequential", format!("C18|tsan-mismatch|{}", k), format!("bare workload under TSan: {}", tail(&so, 5).replace('\n', " / ")), json!({"kind": "threads", "observer": "tsan", "run": k}));
                } else if code != Some(0) {
                    inconclusive.push(format!("TSan run {} ended with {:?}: {}", k, code, tail(&se, 4).replace('\n', " / ")));
                }
            }
            sink.add("tsan_nodes_compared", tsan_nodes);
            extra.insert("tsan".into(), json!({"runs": runs, "reports": reports, "distinct_report_sites": sites}));
        }
    }

    // ---- observer 2b: cold start in fresh native processes (first engine calls made concurrently) ----
    {
        let ndir = target.join("sanit-native");
        let mut c = Command::new("cargo");
        c.args(["build", "--release", "--offline"]).current_dir(vd.join("sanit")).env("CARGO_TARGET_DIR", &ndir).env("CARGO_NET_OFFLINE", "true").env("CARGO_TERM_COLOR", "never").env_remove("RUSTFLAGS");
        let (code, _so, se) = run_cmd(c);
        if code != Some(0) {
            inconclusive.push(format!("native build of the bare workload failed: {}", tail(&se, 4).replace('\n', " / ")));
        } else {
            let bin = ndir.join("release/c18bare");
            let runs = cfg.n(120, 1800);
            let outs: Vec<(u64, Option<i32>, String, String)> = std::thread::scope(|sc| {
                let mut all = vec![];
                for chunk in (0..runs).collect::<Vec<u64>>().chunks(4) {
                    let hs: Vec<_> = chunk
                        .iter()
                        .map(|k| {
                            let bin = bin.clone();
                            let k = *k;
                            sc.spawn(move || {
                                let mut c = Command::new(&bin);
                                c.args(["0", &format!("{}", 4 + (k % 4) * 4), "1", &format!("{}", cfg.seed * 7919 + k), &format!("{}", 2 + k % 9), "100", "0", "0", if k % 3 == 0 { "1" } else { "2" }]);
                                let (code, so, se) = run_cmd(c);
                                (k, code, so, se)
                            })
                        })
                        .collect();
                    for h in hs {
                        all.push(h.join().unwrap());
                    }
                }
                all
            });
            for (k, code, so, se) in outs {
                sink.count("cold_start_processes");
                if k % 3 != 0 {
                    sink.count("cold_start_processes_on_prepared_states");
                }
                if code == Some(1) || so.contains("MISMATCH") {
                    sink.violate("C18", "cold_start_result_ne_sequential", format!("C18|cold_start|{}", k), format!("fresh process {}: threads making the first engine calls concurrently disagree with the sequential result: {}", k, tail(&so, 4).replace('\n', " / ")), json!({"kind": "threads", "observer": "cold_start", "run": k}));
                } else if code != Some(0) {
                    inconclusive.push(format!("cold-start process {} ended with {:?}: {}", k, code, tail(&se, 3).replace('\n', " / ")));
                }
            }
        }
    }

    // ---- observer 3b: Miri (schedule exploration with weak-memory emulation, leak check) ----
    // two root kinds: setup + a few turns (seeds 0..n) and the scripted third-repetition root at step 3 (seeds 0..n/2)
    {
        let mut miri_obs = vec![];
        for (label, force_rep, seeds) in [("setup_and_turns_root", "0", cfg.n(8, 64)), ("third_repetition_root_step3", "1", cfg.n(4, 32))] {
            let mut c = Command::new("cargo");
            c.args(["+nightly", "miri", "run", "--offline", "--", "1", "3", "1", &cfg.seed.to_string(), "2", "40", "1", force_rep]).current_dir(vd.join("sanit")).env("MIRIFLAGS", format!("-Zmiri-many-seeds=0..{}", seeds)).env("CARGO_TARGET_DIR", target.join("sanit-miri")).env("CARGO_NET_OFFLINE", "true").env("CARGO_TERM_COLOR", "never").env_remove("RUSTFLAGS");
            let (code, so, se) = run_cmd(c);
            let done = so.lines().filter(|l| l.starts_with("c18bare ")).count() as u64;
            sink.add("miri_seeds_completed", done);
            sink.add(&format!("miri_seeds_{}", label), done);
            let bad = ["Undefined Behavior", "Data race", "data race", "memory leaked", "deadlock", "MISMATCH"].iter().any(|p| se.contains(p) || so.contains(p));
            miri_obs.push(json!({"root": label, "seeds_requested": seeds, "seeds_completed": done, "exit": code, "stderr_tail": if code == Some(0) { String::new() } else { tail(&se, 30) }}));
            if bad {
                let first = se.lines().find(|l| l.contains("error:")).unwrap_or("").to_string();
                sink.violate("C18", "miri_report", format!("C18|miri|{}", first), format!("Miri ({}) reported: {} ...{}", label, first, tail(&se, 20).replace('\n', " / ")), json!({"kind": "threads", "observer": "miri", "root": label, "report": tail(&se, 80)}));
            } else if code != Some(0) {
                inconclusive.push(format!("Miri ({}) ended with {:?} without a race/UB/leak report: {}", label, code, tail(&se, 5).replace('\n', " / ")));
            }
        }
        extra.insert("miri".into(), json!(miri_obs));
    }

    let rep = Report {
        evaluations_counter: "nodes_compared",
        rule: "W12. Observer 1 (build-time): a probe crate requiring Send + Sync of 13 public types (and Arc/Vec/spawn uses) must compile. Observer 2: roots after setup + 0..40 turns, mid-turn roots, W3 roots with shared histories, setup-phase roots, scripted third-repetition roots at step 3 and W5b roots where every turn-ender is withheld (several history lookups with different answers per query; these roots are additionally queried 40 times per thread) are expanded to depth 1-2 by 4..32 threads (shared via Arc, borrowed with concurrent clone/drop threads, or moved clones) in permuted orders with seeded yields/spins between engine calls; every thread's (path, fingerprint) vector must equal the sequential expansion and a deep fingerprint of the root (incl. every history entry) must be unchanged; lists sharing tails of up to 180 000 nodes are dropped from 4..15 threads, and 2-4 threads drop the last handles of one list at the same instant (spin barrier) while drop probes measure the stack span over which the nodes are freed. Pool rounds: the turn trees (depth 3, up to 4 000 different states) below several roots are queried by 8-24 threads at once, each thread in its own order, and every answer is compared with the sequential one (cross-talk between different states and queries); the roots include 'sibling games' that reach the same position after the same number of turns with different histories. Observer 2b: fresh native processes in which 4-16 threads make the very first engine calls at the same instant (cold start: lazily initialised process-wide state) must agree with the sequential result. Observer 3: the same bare workload (no shared monitor state) under ThreadSanitizer (-Zbuild-std) and under Miri -Zmiri-many-seeds. distinct_nontrivial = distinct thread completion orders observed natively.".into(),
        assumptions: vec!["'under every interleaving' is sampled (rounds, TSan runs, Miri seeds), not enumerated".into(), "the Send + Sync half is decided by the compiler on a probe crate (a build-time observation)".into(), "TSan/Miri see only the code the bare workload reaches (all public queries + take_action + clone/drop)".into()],
        floors: vec![floor("rounds", 5000, 150_000), floor("nodes_compared", 500_000, 20_000_000), floor("distinct_thread_completion_orders", 500, 5000), floor("tsan_runs", 12, 200), floor("tsan_nodes_compared", 10_000, 100_000), floor("miri_seeds_completed", 12, 96), floor("autotrait_probe_builds", 1, 1), floor("longest_shared_history", 20, 30), floor("rounds_root_third_repetition_at_step3", 500, 15_000), floor("rounds_root_saturated_all_withheld", 400, 12_000), floor("simultaneous_last_owner_drop_rounds", 500, 5000), floor("cold_start_processes", 64, 1000), floor("pool_rounds", 20, 400), floor("pool_rounds_with_sibling_games", 15, 300), floor("sibling_duel_queries", 50_000, 1_000_000), floor("pool_states_queried_concurrently", 200_000, 4_000_000), floor("fresh_rounds", 100, 4000), floor("fresh_rounds_history_ge_16", 80, 3000), floor("fresh_rounds_history_ge_200", 20, 800), floor("migration_rounds", 100, 1000), floor("simultaneous_children_rounds", 200, 6000), floor("history_duel_rounds", 30, 900), floor("migrated_states_successors_compared", 15_000, 400_000)],
        level: "exploration",
        exhaustive: None,
        extra,
        inconclusive,
    };
    let _ = (GameRecord::new("", 0, 0, Start::Setup { placements: vec![] }), NullMon);
    conclude(cfg, sink, rep)
}
