//! Workload families: position generators (DESIGN.md §5). All seeded; all positions legal
//! (counts within the complement, nothing unsupported on a trap) and self-checked before use.

use crate::model::*;
use crate::rng::Rng;

fn place_random(b: &mut MBoard, rng: &mut Rng, c: u8, lo: usize, hi: usize) -> bool {
    for _ in 0..30 {
        let i = lo + rng.below(hi - lo);
        if b.0[i] == 0 {
            b.0[i] = c;
            return true;
        }
    }
    false
}

pub fn legalise(b: &mut MBoard) {
    // remove unsupported trap pieces (one pass suffices: removal never un-supports a trap piece
    // of the other trap since traps are not adjacent)
    while let Some(tr) = b.unsupported_trap_piece() {
        b.0[tr] = 0;
    }
}

pub fn random_moveno(rng: &mut Rng) -> u64 {
    match rng.below(12) {
        10 => (1u64 << 32) - 3 + rng.below(6) as u64,
        11 => [(1u64 << 16) - 2, (1 << 31) - 2, (1 << 40) + 7, (1 << 53) + 1, (1 << 62) + 5, 1023, 65_535, 255][rng.below(8)] + rng.below(3) as u64,
        0 => 1,
        1 => 2,
        2 => 1_000_000 + rng.below(1000) as u64,
        3 => 2 + rng.below(10_000) as u64,
        // just below / at round numbers and powers of two (periodic audits, narrow counters)
        4 => {
            let base = [10u64, 100, 1000, 10_000, 100_000, 256, 512, 1024, 4096, 65_536, 1 << 20, 1 << 24, 1 << 31, 1 << 32][rng.below(14)];
            (base * (1 + rng.below(9) as u64)).saturating_sub(rng.below(4) as u64).max(1)
        }
        _ => 2 + rng.below(60) as u64,
    }
}

/// W1: random material with a density class, random squares.
pub fn w1(rng: &mut Rng) -> (MBoard, bool, u64) {
    if rng.below(16) == 0 {
        return wide(rng);
    }
    let mut b = MBoard::empty();
    let density = rng.below(4);
    for gold in [true, false] {
        for s in (0..6u8).rev() {
            for _ in 0..COMPLEMENT[s as usize] {
                let keep = match density {
                    0 => rng.chance(1, 5),
                    1 => rng.chance(2, 5),
                    2 => rng.chance(7, 10),
                    _ => rng.chance(19, 20),
                };
                if keep {
                    place_random(&mut b, rng, cell(s, gold), 0, 64);
                }
            }
        }
    }
    legalise(&mut b);
    (b, rng.chance(1, 2), random_moveno(rng))
}

/// Wide-open positions: the mover's whole army spread over one colour class of the 36 inner squares (the 16
/// non-trap squares of that class: no two pieces adjacent, every piece with four empty neighbours), a few pieces
/// then moved elsewhere, and a handful of weak enemy pieces dropped among them. These are the positions with
/// the longest step lists (50-70 steps), which random material on random squares never comes near.
pub fn wide(rng: &mut Rng) -> (MBoard, bool, u64) {
    if rng.chance(1, 2) {
        return scattered(rng);
    }
    let mut b = MBoard::empty();
    let mover_gold = rng.chance(1, 2);
    let class = rng.below(2);
    let mut squares: Vec<usize> = (0..64usize).filter(|i| (1..7).contains(&(i % 8)) && (1..7).contains(&(i / 8)) && (i % 8 + i / 8) % 2 == class && !TRAPS.contains(i)).collect();
    rng.shuffle(&mut squares);
    let mut army: Vec<u8> = vec![];
    for s in 0..6u8 {
        for _ in 0..COMPLEMENT[s as usize] {
            army.push(s);
        }
    }
    rng.shuffle(&mut army);
    // sometimes a smaller army
    let keep = if rng.chance(1, 3) { 12 + rng.below(5) } else { 16 };
    for (k, sq) in squares.iter().enumerate().take(keep.min(army.len())) {
        b.0[*sq] = cell(army[k], mover_gold);
    }
    // a few pieces wander off to arbitrary squares
    for _ in 0..rng.below(4) {
        let from = squares[rng.below(squares.len())];
        let to = rng.below(64);
        if b.0[from] != 0 && b.0[to] == 0 {
            b.0[to] = b.0[from];
            b.0[from] = 0;
        }
    }
    // weak enemy pieces (rabbits first), sometimes a strong one
    let n_enemy = 1 + rng.below(12);
    let mut left = COMPLEMENT;
    for _ in 0..n_enemy {
        let s = match rng.below(12) {
            0..=6 => 0u8,
            7 | 8 => 1,
            9 | 10 => 2,
            _ => rng.below(6) as u8,
        };
        if left[s as usize] == 0 {
            continue;
        }
        if place_random(&mut b, rng, cell(s, !mover_gold), 0, 64) {
            left[s as usize] -= 1;
        }
    }
    legalise(&mut b);
    (b, mover_gold, random_moveno(rng))
}

/// Scattered positions: the mover's army dropped one by one on squares without any occupied neighbour (whole board,
/// traps excluded), then weak enemy pieces each next to exactly one - stronger - piece of the mover and nothing
/// else: nearly every piece can step in every direction and nearly every enemy piece can be pushed three ways.
pub fn scattered(rng: &mut Rng) -> (MBoard, bool, u64) {
    let mut b = MBoard::empty();
    let mover_gold = rng.chance(1, 2);
    let nbs = |i: usize| -> Vec<usize> {
        let mut v = vec![];
        if i % 8 > 0 {
            v.push(i - 1);
        }
        if i % 8 < 7 {
            v.push(i + 1);
        }
        if i >= 8 {
            v.push(i - 8);
        }
        if i < 56 {
            v.push(i + 8);
        }
        v
    };
    let mut army: Vec<u8> = vec![];
    for s in 0..6u8 {
        for _ in 0..COMPLEMENT[s as usize] {
            army.push(s);
        }
    }
    rng.shuffle(&mut army);
    let goal_row = if mover_gold { 0 } else { 7 };
    for st in army {
        for _ in 0..40 {
            let i = rng.below(64);
            if b.0[i] == 0 && !TRAPS.contains(&i) && nbs(i).iter().all(|n| b.0[*n] == 0) && !(st == 0 && i / 8 == goal_row) {
                b.0[i] = cell(st, mover_gold);
                break;
            }
        }
    }
    let n_enemy = rng.below(13);
    let mut left = COMPLEMENT;
    let enemy_goal_row = if mover_gold { 7 } else { 0 };
    for _ in 0..n_enemy {
        let s = match rng.below(10) {
            0..=6 => 0u8,
            7 | 8 => 1,
            _ => 2,
        };
        if left[s as usize] == 0 {
            continue;
        }
        for _ in 0..60 {
            let i = rng.below(64);
            if b.0[i] != 0 || TRAPS.contains(&i) || (s == 0 && i / 8 == enemy_goal_row) {
                continue;
            }
            let occ: Vec<usize> = nbs(i).into_iter().filter(|n| b.0[*n] != 0).collect();
            if occ.len() == 1 && is_gold(b.0[occ[0]]) == mover_gold && strength(b.0[occ[0]]) > s {
                b.0[i] = cell(s, !mover_gold);
                left[s as usize] -= 1;
                break;
            }
        }
    }
    legalise(&mut b);
    (b, mover_gold, random_moveno(rng))
}

/// W2: dense cluster around a focus square (traps, corners, edges, goal ranks), sparse elsewhere.
pub fn w2(rng: &mut Rng) -> (MBoard, bool, u64) {
    let mut b = MBoard::empty();
    let focus = match rng.below(6) {
        0 | 1 => TRAPS[rng.below(4)],
        2 => [0, 7, 56, 63][rng.below(4)],
        3 => rng.below(8) * 8 + if rng.chance(1, 2) { 0 } else { 7 },
        4 => rng.below(8) + if rng.chance(1, 2) { 0 } else { 56 },
        _ => rng.below(64),
    };
    let (ff, fr) = ((focus % 8) as i32, (focus / 8) as i32);
    let mut left = [[0u8; 6]; 2];
    left[0] = COMPLEMENT;
    left[1] = COMPLEMENT;
    for i in 0..64usize {
        let d = ((i % 8) as i32 - ff).abs() + ((i / 8) as i32 - fr).abs();
        let p = if d <= 2 { 65 } else { 6 };
        if rng.below(100) < p {
            let gold = rng.chance(1, 2);
            let s = match rng.below(10) {
                0..=3 => 0,
                4 => 1,
                5 => 2,
                6 => 3,
                7 => 4,
                8 => 5,
                _ => rng.below(6) as u8,
            };
            let side = if gold { 0 } else { 1 };
            if left[side][s as usize] > 0 {
                left[side][s as usize] -= 1;
                b.0[i] = cell(s, gold);
            }
        }
    }
    legalise(&mut b);
    (b, rng.chance(1, 2), random_moveno(rng))
}

/// W3: repetition-friendly endgames: one rabbit per side at home, 1-3 other pieces in the middle.
pub fn w3(rng: &mut Rng) -> (MBoard, bool, u64) {
    let mut b = MBoard::empty();
    for gold in [true, false] {
        let home = if gold { 56 } else { 0 };
        b.0[home + rng.below(8)] = cell(0, gold);
        let n = 1 + rng.below(3);
        let mut left = COMPLEMENT;
        for _ in 0..n {
            let s = 1 + rng.below(5) as u8;
            if left[s as usize] == 0 {
                continue;
            }
            for _ in 0..20 {
                let i = 16 + rng.below(32);
                if b.0[i] == 0 && !TRAPS.contains(&i) {
                    b.0[i] = cell(s, gold);
                    left[s as usize] -= 1;
                    break;
                }
            }
        }
    }
    legalise(&mut b);
    (b, rng.chance(1, 2), 2 + rng.below(60) as u64)
}

/// W4: terminal-condition constructor. `class` selects (last mover goal state, mover goal state,
/// immobile mover?) ; goal squares are chosen by `gsq`.
/// goal state: 0 = rabbit on goal, 1 = rabbits but none on goal, 2 = no rabbits.
pub fn w4(rng: &mut Rng, last_state: u8, mover_state: u8, want_immobile: bool, gold_to_move: bool, gsq: usize) -> Option<(MBoard, bool, u64)> {
    for _attempt in 0..400 {
        let mut b = MBoard::empty();
        let mover = gold_to_move;
        let last = !gold_to_move;
        for (side, st) in [(last, last_state), (mover, mover_state)] {
            let goal_base = if side { 0 } else { 56 };
            match st {
                0 => {
                    b.0[goal_base + gsq % 8] = cell(0, side);
                    // maybe more rabbits elsewhere
                    for _ in 0..rng.below(3) {
                        place_nongoal_rabbit(&mut b, rng, side);
                    }
                }
                1 => {
                    for _ in 0..1 + rng.below(3) {
                        place_nongoal_rabbit(&mut b, rng, side);
                    }
                }
                _ => {}
            }
        }
        if want_immobile {
            // box the mover in: few mover pieces, each frozen or blocked
            let n_extra = rng.below(2);
            for _ in 0..n_extra {
                let s = 1 + rng.below(3) as u8;
                place_random(&mut b, rng, cell(s, mover), 0, 64);
            }
            // surround every mover piece with stronger enemy pieces / edges
            let mine: Vec<usize> = (0..64).filter(|i| b.0[*i] != 0 && is_gold(b.0[*i]) == mover).collect();
            let mut enemy_left = COMPLEMENT;
            for i in 0..64 {
                if b.0[i] != 0 && is_gold(b.0[i]) != mover {
                    let s = strength(b.0[i]) as usize;
                    enemy_left[s] = enemy_left[s].saturating_sub(1);
                }
            }
            for i in mine {
                for d in 0..4 {
                    if let Some(n) = nb(i, d) {
                        if b.0[n] == 0 && !TRAPS.contains(&n) {
                            // choose an enemy piece stronger than the piece on i when possible
                            let need = strength(b.0[i]) + 1;
                            let mut cands: Vec<u8> = (need.min(5)..6).filter(|s| enemy_left[*s as usize] > 0).collect();
                            if cands.is_empty() {
                                cands = (0..6u8).filter(|s| enemy_left[*s as usize] > 0).collect();
                            }
                            if cands.is_empty() {
                                continue;
                            }
                            let s = cands[rng.below(cands.len())];
                            // do not put an enemy rabbit on its goal by accident unless class says so
                            if s == 0 {
                                let goal_base = if !mover { 0 } else { 56 };
                                if n / 8 == goal_base / 8 && last_state != 0 {
                                    continue;
                                }
                                if last_state == 2 {
                                    continue;
                                }
                            }
                            enemy_left[s as usize] -= 1;
                            b.0[n] = cell(s, !mover);
                        }
                    }
                }
            }
        } else {
            // random other material
            for side in [true, false] {
                for s in 1..6u8 {
                    for _ in 0..COMPLEMENT[s as usize] {
                        if rng.chance(1, 4) {
                            place_random(&mut b, rng, cell(s, side), 0, 64);
                        }
                    }
                }
            }
        }
        legalise(&mut b);
        if !b.within_complement() {
            continue;
        }
        // verify the class against the model's own predicates (goal / rabbits / immobility)
        let ok_side = |side: bool, st: u8| match st {
            0 => b.goal(side),
            1 => b.has_rabbit(side) && !b.goal(side),
            _ => !b.has_rabbit(side),
        };
        if !ok_side(last, last_state) || !ok_side(mover, mover_state) {
            continue;
        }
        let immobile = b.legal(mover, 0, Pend::None).is_empty();
        if immobile != want_immobile {
            continue;
        }
        return Some((b, gold_to_move, 2 + rng.below(60) as u64));
    }
    None
}

fn place_nongoal_rabbit(b: &mut MBoard, rng: &mut Rng, side: bool) {
    // a rabbit that is not on its own goal rank (rank 8 for gold = row 0; rank 1 for silver = row 7)
    for _ in 0..30 {
        let i = rng.below(64);
        let row = i / 8;
        let on_goal = if side { row == 0 } else { row == 7 };
        if !on_goal && b.0[i] == 0 && b.counts()[cell(0, side) as usize] < 8 {
            b.0[i] = cell(0, side);
            return;
        }
    }
}

/// The standard-looking opening array (rabbits in front is not standard, but legal): used as a base.
pub fn opening_array() -> MBoard {
    let back = [3u8, 1, 2, 4, 5, 2, 1, 3]; // h c d m e d c h
    let mut b = MBoard::empty();
    for f in 0..8 {
        b.0[f] = cell(back[f], false);
        b.0[8 + f] = cell(0, false);
        b.0[48 + f] = cell(0, true);
        b.0[56 + f] = cell(back[f], true);
    }
    b
}

/// W13-style open position for long capture-free games.
pub fn long_game_position() -> MBoard {
    let mut b = MBoard::empty();
    for f in 0..8 {
        b.0[56 + f] = cell(0, true);
        b.0[f] = cell(0, false);
    }
    b.0[35] = cell(5, true); // d4 E
    b.0[36] = cell(3, true); // e4 H
    b.0[33] = cell(2, true); // b4 D
    b.0[27] = cell(5, false); // d5 e
    b.0[28] = cell(3, false); // e5 h
    b.0[30] = cell(2, false); // g5 d
    b
}

/// W4c: "barely mobile" movers — one strong mover piece hemmed in by enemy pieces whose own escape
/// squares are mostly blocked, the mover's rabbit frozen far away. Produces immobilised movers and,
/// more importantly, movers whose only legal steps are pushes (of rabbits and others, in every
/// direction): the positions on which a short-circuiting has_move / is_terminal is decided.
pub fn w4c(rng: &mut Rng) -> Option<(MBoard, bool, u64)> {
    let mover = rng.chance(1, 2);
    let mut b = MBoard::empty();
    let mut left = [COMPLEMENT, COMPLEMENT]; // [gold, silver]
    let side = |g: bool| if g { 0 } else { 1 };
    let mut put = |b: &mut MBoard, i: usize, s: u8, g: bool, left: &mut [[u8; 6]; 2]| -> bool {
        if b.0[i] == 0 && left[side(g)][s as usize] > 0 {
            left[side(g)][s as usize] -= 1;
            b.0[i] = cell(s, g);
            true
        } else {
            false
        }
    };
    let x = match rng.below(4) {
        0 => [0usize, 7, 56, 63][rng.below(4)],
        1 => rng.below(8) * 8 + if rng.chance(1, 2) { 0 } else { 7 },
        2 => rng.below(8) + if rng.chance(1, 2) { 0 } else { 56 },
        _ => rng.below(64),
    };
    if TRAPS.contains(&x) {
        return None;
    }
    let xs = 1 + rng.below(5) as u8;
    put(&mut b, x, xs, mover, &mut left);
    let mut ring: Vec<usize> = vec![];
    for d in 0..4 {
        if let Some(n) = nb(x, d) {
            if rng.chance(9, 10) {
                let s = if rng.chance(2, 5) { 0 } else { rng.below(6) as u8 };
                if put(&mut b, n, s, !mover, &mut left) {
                    ring.push(n);
                }
            }
        }
    }
    for e in ring {
        for d in 0..4 {
            if let Some(m) = nb(e, d) {
                if b.0[m] == 0 && rng.chance(7, 10) {
                    let g = rng.chance(1, 3) == mover;
                    let s = if g == mover { 0 } else { rng.below(6) as u8 };
                    // own pieces here would be mobile; use enemy pieces mostly, own rabbits sometimes (they may be blocked)
                    put(&mut b, m, s, g, &mut left);
                }
            }
        }
    }
    // the other side gets a rabbit somewhere harmless (not on its goal rank)
    for _ in 0..1 + rng.below(2) {
        let i = rng.below(64);
        let row = i / 8;
        let on_goal = if !mover { row == 0 } else { row == 7 };
        if !on_goal {
            put(&mut b, i, 0, !mover, &mut left);
        }
    }
    // the mover's rabbit: frozen in a far corner by a stronger enemy piece
    let corners: [(usize, usize); 4] = [(56, 48), (63, 55), (0, 8), (7, 15)];
    let (rc, fz) = corners[rng.below(4)];
    let row = rc / 8;
    let on_goal = if mover { row == 0 } else { row == 7 };
    if !on_goal && b.0[rc] == 0 && b.0[fz] == 0 && rng.chance(4, 5) {
        let other = if rc % 8 == 0 { rc + 1 } else { rc - 1 };
        if b.0[other] == 0 || is_gold(b.0[other]) != mover {
            put(&mut b, rc, 0, mover, &mut left);
            put(&mut b, fz, 1 + rng.below(5) as u8, !mover, &mut left);
        }
    }
    legalise(&mut b);
    if !b.within_complement() || b.0[x] == 0 {
        return None;
    }
    Some((b, mover, 2 + rng.below(90) as u64))
}


/// C11: a position that becomes MIRROR-SYMMETRIC by one step of the side to move (pieces without a twin -
/// camel, elephant - are left out), together with that step. After it the game and its mirror image show the
/// same board with different pending-pull squares.
pub fn one_step_from_symmetric(rng: &mut Rng) -> Option<(MBoard, bool, u64, Code)> {
    for _ in 0..40 {
        let mut b = MBoard::empty();
        for gold in [true, false] {
            let mut left = [4usize, 1, 1, 1]; // pairs of r c d h
            let n = 2 + rng.below(5);
            let mut placed = 0;
            let mut tries = 0;
            while placed < n && tries < 200 {
                tries += 1;
                let s = rng.below(4);
                if left[s] == 0 {
                    continue;
                }
                let r = rng.below(8);
                let f = rng.below(4);
                let (i, j) = (r * 8 + f, r * 8 + 7 - f);
                if b.0[i] != 0 || b.0[j] != 0 || TRAPS.contains(&i) {
                    continue;
                }
                if s == 0 && ((gold && r == 0) || (!gold && r == 7)) {
                    continue; // no rabbit on its goal rank
                }
                b.0[i] = cell(s as u8, gold);
                b.0[j] = cell(s as u8, gold);
                left[s] -= 1;
                placed += 1;
            }
        }
        if !b.has_rabbit(true) || !b.has_rabbit(false) || b.goal(true) || b.goal(false) {
            continue;
        }
        let gold = rng.chance(1, 2);
        // undo one step of a non-rabbit piece of the side to move: it came from an adjacent empty square
        let mut cands: Vec<(usize, usize, u8)> = vec![];
        for i in 0..64usize {
            let c = b.0[i];
            if c == 0 || is_gold(c) != gold || strength(c) == 0 {
                continue;
            }
            for k in 0..4u8 {
                if let Some(j) = nb(i, k) {
                    if b.0[j] == 0 && !TRAPS.contains(&j) {
                        cands.push((i, j, k));
                    }
                }
            }
        }
        if cands.is_empty() {
            continue;
        }
        let (i, j, k) = cands[rng.below(cands.len())];
        // a weaker enemy piece next to the square the piece comes from (a pull into it becomes possible); added
        // as a mirrored pair of enemy rabbits if there is none
        let mut b = b;
        let has_prey = (0..4u8).filter_map(|d| nb(j, d)).any(|n| n != i && b.0[n] != 0 && is_gold(b.0[n]) != gold && strength(b.0[n]) < strength(b.0[i]));
        if !has_prey {
            let mut added = false;
            for d in 0..4u8 {
                if let Some(n) = nb(j, d) {
                    let m = (n / 8) * 8 + 7 - n % 8;
                    let goal_rank = if gold { 7 } else { 0 }; // the enemy's rabbits must not stand on their goal rank
                    if n != i && b.0[n] == 0 && b.0[m] == 0 && m != j && m != i && !TRAPS.contains(&n) && !TRAPS.contains(&m) && n / 8 != goal_rank {
                        b.0[n] = cell(0, !gold);
                        b.0[m] = cell(0, !gold);
                        added = true;
                        break;
                    }
                }
            }
            if !added || (0..64).filter(|x| b.0[*x] == cell(0, !gold)).count() > 8 {
                continue;
            }
        }
        let mut start = b;
        start.0[j] = start.0[i];
        start.0[i] = 0;
        let code = step_code(j, opp(k));
        if !start.legal(gold, 0, Pend::None).contains(code) {
            continue;
        }
        match start.apply(gold, Pend::None, j, opp(k)) {
            Some(a) if a.captured.is_empty() && a.board == b => return Some((start, gold, 2 + rng.below(40) as u64, code)),
            _ => continue,
        }
    }
    None
}
