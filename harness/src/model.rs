//! Executable reference model of the Arimaa rules (DESIGN.md §4).
//!
//! Deliberately different in shape from the engine: a mailbox board, explicit neighbour
//! function with edge tests, no bit tricks, no hashing. Nothing in this file calls the engine.
//!
//! Square index i  <->  file i mod 8 (a..h), rank 8 - i div 8.
//! Cell code: 0 empty, 1..=6 gold R C D H M E, 7..=12 silver r c d h m e.
//! Direction: 0 n (towards rank 8, i-8), 1 e (i+1), 2 s (i+8), 3 w (i-1).

pub const TRAPS: [usize; 4] = [18, 21, 42, 45]; // c6 f6 c3 f3
pub const COMPLEMENT: [u8; 6] = [8, 2, 2, 2, 1, 1]; // R C D H M E
pub const LETTERS: [char; 6] = ['r', 'c', 'd', 'h', 'm', 'e'];
pub const DIRS: [char; 4] = ['n', 'e', 's', 'w'];

#[derive(Clone, Copy, PartialEq, Eq, Hash, PartialOrd, Ord)]
pub struct MBoard(pub [u8; 64]);

impl std::fmt::Debug for MBoard {
    fn fmt(&self, f: &mut std::fmt::Formatter) -> std::fmt::Result {
        write!(f, "{}", self.compact())
    }
}

#[inline]
pub fn cell(strength: u8, gold: bool) -> u8 {
    1 + strength + if gold { 0 } else { 6 }
}
#[inline]
pub fn strength(c: u8) -> u8 {
    (c - 1) % 6
}
#[inline]
pub fn is_gold(c: u8) -> bool {
    c <= 6
}
pub fn cell_char(c: u8) -> char {
    let l = LETTERS[strength(c) as usize];
    if is_gold(c) {
        l.to_ascii_uppercase()
    } else {
        l
    }
}

#[inline]
pub fn nb(i: usize, d: u8) -> Option<usize> {
    let (f, r) = (i % 8, i / 8);
    match d {
        0 => {
            if r > 0 {
                Some(i - 8)
            } else {
                None
            }
        }
        1 => {
            if f < 7 {
                Some(i + 1)
            } else {
                None
            }
        }
        2 => {
            if r < 7 {
                Some(i + 8)
            } else {
                None
            }
        }
        _ => {
            if f > 0 {
                Some(i - 1)
            } else {
                None
            }
        }
    }
}
#[inline]
pub fn opp(d: u8) -> u8 {
    (d + 2) % 4
}

#[derive(Clone, Copy, PartialEq, Eq, Hash, Debug, PartialOrd, Ord)]
pub enum Pend {
    None,
    /// a friendly piece of this strength left this square: an adjacent weaker enemy may follow
    Pull(u8, u8),
    /// an enemy piece of this strength was displaced from this square: must be filled
    Push(u8, u8),
}
impl Pend {
    pub fn kind(&self) -> usize {
        match self {
            Pend::None => 0,
            Pend::Pull(..) => 1,
            Pend::Push(..) => 2,
        }
    }
}

/// Action codes: step = sq*4+dir (0..256), pass = 256, place = 257 + strength.
pub type Code = u16;
pub const PASS: Code = 256;
#[inline]
pub fn step_code(sq: usize, d: u8) -> Code {
    (sq * 4 + d as usize) as Code
}
#[inline]
pub fn place_code(strength: u8) -> Code {
    257 + strength as Code
}
pub fn is_step(c: Code) -> bool {
    c < 256
}
pub fn code_sq(c: Code) -> usize {
    (c / 4) as usize
}
pub fn code_dir(c: Code) -> u8 {
    (c % 4) as u8
}
pub fn sq_text(i: usize) -> String {
    format!("{}{}", (b'a' + (i % 8) as u8) as char, 8 - i / 8)
}
pub fn code_text(c: Code) -> String {
    if c < 256 {
        format!("{}{}", sq_text(code_sq(c)), DIRS[code_dir(c) as usize])
    } else if c == PASS {
        "p".to_string()
    } else {
        LETTERS[(c - 257) as usize].to_string()
    }
}
/// Reference grammar for action notation (C16): `p` | `[EMHDCRemhdcr]` | `[a-h][1-8][nesw]`.
pub fn parse_action_ref(s: &str) -> Option<Code> {
    let ch: Vec<char> = s.chars().collect();
    match ch.len() {
        1 => {
            if ch[0] == 'p' {
                return Some(PASS);
            }
            parse_piece_ref(s).map(place_code)
        }
        3 => {
            let sq = parse_square_ref(&ch[..2].iter().collect::<String>())?;
            let d = parse_dir_ref(&ch[2].to_string())?;
            Some(step_code(sq, d))
        }
        _ => None,
    }
}
pub fn parse_square_ref(s: &str) -> Option<usize> {
    let ch: Vec<char> = s.chars().collect();
    if ch.len() != 2 {
        return None;
    }
    let f = match ch[0] {
        'a'..='h' => ch[0] as usize - 'a' as usize,
        _ => return None,
    };
    let r = match ch[1] {
        '1'..='8' => ch[1] as usize - '0' as usize,
        _ => return None,
    };
    Some(f + (8 - r) * 8)
}
pub fn parse_piece_ref(s: &str) -> Option<u8> {
    let ch: Vec<char> = s.chars().collect();
    if ch.len() != 1 {
        return None;
    }
    LETTERS
        .iter()
        .position(|l| *l == ch[0] || l.to_ascii_uppercase() == ch[0])
        .map(|p| p as u8)
}
pub fn parse_dir_ref(s: &str) -> Option<u8> {
    let ch: Vec<char> = s.chars().collect();
    if ch.len() != 1 {
        return None;
    }
    DIRS.iter().position(|l| *l == ch[0]).map(|p| p as u8)
}

/// A set of action codes (bitset over 0..263).
#[derive(Clone, Copy, PartialEq, Eq, Hash, Default)]
pub struct ActSet(pub [u64; 5]);
impl ActSet {
    pub fn new() -> ActSet {
        ActSet([0; 5])
    }
    #[inline]
    pub fn insert(&mut self, c: Code) -> bool {
        let (w, b) = ((c / 64) as usize, c % 64);
        let was = self.0[w] >> b & 1 == 1;
        self.0[w] |= 1 << b;
        !was
    }
    #[inline]
    pub fn contains(&self, c: Code) -> bool {
        self.0[(c / 64) as usize] >> (c % 64) & 1 == 1
    }
    pub fn len(&self) -> usize {
        self.0.iter().map(|w| w.count_ones() as usize).sum()
    }
    pub fn is_empty(&self) -> bool {
        self.0.iter().all(|w| *w == 0)
    }
    pub fn iter(&self) -> impl Iterator<Item = Code> + '_ {
        (0..263u16).filter(move |c| self.contains(*c))
    }
    pub fn text(&self) -> String {
        let v: Vec<String> = self.iter().map(code_text).collect();
        format!("{{{}}}", v.join(" "))
    }
    pub fn from_codes(codes: &[Code]) -> ActSet {
        let mut s = ActSet::new();
        for c in codes {
            s.insert(*c);
        }
        s
    }
}
impl std::fmt::Debug for ActSet {
    fn fmt(&self, f: &mut std::fmt::Formatter) -> std::fmt::Result {
        write!(f, "{}", self.text())
    }
}

#[derive(Clone, Debug, PartialEq, Eq)]
pub struct Applied {
    pub board: MBoard,
    /// (trap square, cell code) of every piece removed
    pub captured: Vec<(usize, u8)>,
    pub pend: Pend,
    pub mover_enemy: bool,
    pub moved_cell: u8,
    pub to: usize,
    /// the step completed a pull / completed a push
    pub completed_pull: bool,
    pub completed_push: bool,
}

impl MBoard {
    pub fn empty() -> MBoard {
        MBoard([0; 64])
    }
    pub fn has_friend(&self, i: usize, gold: bool) -> bool {
        (0..4).any(|d| nb(i, d).map_or(false, |n| self.0[n] != 0 && is_gold(self.0[n]) == gold))
    }
    pub fn frozen(&self, i: usize) -> bool {
        let c = self.0[i];
        let (s, g) = (strength(c), is_gold(c));
        if self.has_friend(i, g) {
            return false;
        }
        (0..4).any(|d| {
            nb(i, d).map_or(false, |n| {
                let o = self.0[n];
                o != 0 && is_gold(o) != g && strength(o) > s
            })
        })
    }
    /// some adjacent unfrozen piece of colour `gold` strictly stronger than `s`
    pub fn has_stronger_unfrozen_neighbour(&self, i: usize, gold: bool, s: u8) -> bool {
        (0..4).any(|d| {
            nb(i, d).map_or(false, |n| {
                let o = self.0[n];
                o != 0 && is_gold(o) == gold && strength(o) > s && !self.frozen(n)
            })
        })
    }

    /// The set of legal single actions (repetition rules aside).
    pub fn legal(&self, gold: bool, step: u8, pend: Pend) -> ActSet {
        let mut out = ActSet::new();
        if let Pend::Push(sq, s) = pend {
            // exactly the steps into sq by adjacent, unfrozen, friendly, strictly stronger pieces
            for d in 0..4u8 {
                if let Some(n) = nb(sq as usize, opp(d)) {
                    let o = self.0[n];
                    if o != 0 && is_gold(o) == gold && strength(o) > s && !self.frozen(n) {
                        out.insert(step_code(n, d));
                    }
                }
            }
            return out;
        }
        for i in 0..64 {
            let c = self.0[i];
            if c == 0 {
                continue;
            }
            if is_gold(c) == gold {
                if self.frozen(i) {
                    continue;
                }
                for d in 0..4u8 {
                    if strength(c) == 0 && d == (if gold { 2 } else { 0 }) {
                        continue; // rabbits never step backwards
                    }
                    if let Some(n) = nb(i, d) {
                        if self.0[n] == 0 {
                            out.insert(step_code(i, d));
                        }
                    }
                }
            } else if step < 3 && self.has_stronger_unfrozen_neighbour(i, gold, strength(c)) {
                // push start: enemy piece displaced to any empty neighbour
                for d in 0..4u8 {
                    if let Some(n) = nb(i, d) {
                        if self.0[n] == 0 {
                            out.insert(step_code(i, d));
                        }
                    }
                }
            }
        }
        if let Pend::Pull(sq, s) = pend {
            for d in 0..4u8 {
                if let Some(n) = nb(sq as usize, opp(d)) {
                    let o = self.0[n];
                    if o != 0 && is_gold(o) != gold && strength(o) < s {
                        out.insert(step_code(n, d));
                    }
                }
            }
        }
        if step >= 1 {
            out.insert(PASS);
        }
        out
    }

    /// Apply a step (source square must be occupied, target empty and on the board).
    pub fn apply(&self, gold: bool, pend: Pend, sq: usize, d: u8) -> Option<Applied> {
        let mut b = *self;
        let c = b.0[sq];
        if c == 0 {
            return None;
        }
        let t = nb(sq, d)?;
        if b.0[t] != 0 {
            return None;
        }
        b.0[t] = c;
        b.0[sq] = 0;
        let mut captured = vec![];
        for tr in TRAPS {
            let o = b.0[tr];
            if o != 0 && !b.has_friend(tr, is_gold(o)) {
                captured.push((tr, o));
            }
        }
        for (tr, _) in &captured {
            b.0[*tr] = 0;
        }
        let s = strength(c);
        let enemy = is_gold(c) != gold;
        let mut completed_pull = false;
        let mut completed_push = false;
        let np = if enemy {
            match pend {
                Pend::Pull(ps, pstr) if ps as usize == t && pstr > s => {
                    completed_pull = true;
                    Pend::None
                }
                _ => Pend::Push(sq as u8, s),
            }
        } else {
            match pend {
                Pend::Push(..) => {
                    completed_push = true;
                    Pend::None
                }
                _ => {
                    if s != 0 {
                        Pend::Pull(sq as u8, s)
                    } else {
                        Pend::None
                    }
                }
            }
        };
        Some(Applied {
            board: b,
            captured,
            pend: np,
            mover_enemy: enemy,
            moved_cell: c,
            to: t,
            completed_pull,
            completed_push,
        })
    }

    pub fn goal(&self, gold: bool) -> bool {
        let base = if gold { 0 } else { 56 };
        (0..8).any(|f| self.0[base + f] == cell(0, gold))
    }
    pub fn has_rabbit(&self, gold: bool) -> bool {
        self.0.iter().any(|c| *c == cell(0, gold))
    }
    /// Result at a turn start. Some(true) = Gold wins.
    pub fn result(&self, gold_to_move: bool) -> Option<bool> {
        let a = !gold_to_move; // just moved
        let b = gold_to_move;
        if self.goal(a) {
            return Some(a);
        }
        if self.goal(b) {
            return Some(b);
        }
        if !self.has_rabbit(b) {
            return Some(a);
        }
        if !self.has_rabbit(a) {
            return Some(b);
        }
        if self.legal(b, 0, Pend::None).is_empty() {
            return Some(a);
        }
        None
    }
    /// which of the five conditions hold (for coverage classes):
    /// bit0 goal(last mover) bit1 goal(mover) bit2 mover has no rabbit bit3 last mover has no rabbit bit4 mover immobile
    pub fn result_class(&self, gold_to_move: bool) -> u8 {
        let a = !gold_to_move;
        let b = gold_to_move;
        (self.goal(a) as u8)
            | (self.goal(b) as u8) << 1
            | (!self.has_rabbit(b) as u8) << 2
            | (!self.has_rabbit(a) as u8) << 3
            | (self.legal(b, 0, Pend::None).is_empty() as u8) << 4
    }

    pub fn counts(&self) -> [u8; 13] {
        let mut k = [0u8; 13];
        for c in self.0.iter() {
            k[*c as usize] += 1;
        }
        k
    }
    pub fn piece_count(&self) -> usize {
        self.0.iter().filter(|c| **c != 0).count()
    }
    pub fn within_complement(&self) -> bool {
        let k = self.counts();
        (0..6).all(|s| k[1 + s] <= COMPLEMENT[s] && k[7 + s] <= COMPLEMENT[s])
    }
    pub fn unsupported_trap_piece(&self) -> Option<usize> {
        TRAPS
            .iter()
            .copied()
            .find(|tr| self.0[*tr] != 0 && !self.has_friend(*tr, is_gold(self.0[*tr])))
    }
    pub fn is_legal_position(&self) -> bool {
        self.within_complement() && self.unsupported_trap_piece().is_none()
    }

    /// Independent rendering of the engine's diagram format.
    pub fn to_text(&self, gold: bool, moveno: u64) -> String {
        let mut s = String::with_capacity(260);
        s.push_str(&moveno.to_string());
        s.push(if gold { 'g' } else { 's' });
        s.push_str("\n +-----------------+\n");
        for r in 0..8 {
            s.push((b'8' - r as u8) as char);
            s.push('|');
            for f in 0..8 {
                let i = r * 8 + f;
                s.push(' ');
                s.push(if self.0[i] != 0 {
                    cell_char(self.0[i])
                } else if TRAPS.contains(&i) {
                    'x'
                } else {
                    ' '
                });
            }
            s.push_str(" |\n");
        }
        s.push_str(" +-----------------+\n   a b c d e f g h\n");
        s
    }
    /// 64-character single-line form for logs / replays ('.' empty).
    pub fn compact(&self) -> String {
        self.0
            .iter()
            .map(|c| if *c == 0 { '.' } else { cell_char(*c) })
            .collect()
    }
    pub fn from_compact(s: &str) -> Option<MBoard> {
        let ch: Vec<char> = s.chars().collect();
        if ch.len() != 64 {
            return None;
        }
        let mut b = MBoard::empty();
        for (i, c) in ch.iter().enumerate() {
            if *c == '.' {
                continue;
            }
            let st = LETTERS.iter().position(|l| *l == c.to_ascii_lowercase())? as u8;
            b.0[i] = cell(st, c.is_ascii_uppercase());
        }
        Some(b)
    }

    /// Image under file mirror and/or colour swap + rank flip.
    pub fn transform(&self, mirror: bool, flip: bool) -> MBoard {
        let mut t = MBoard::empty();
        for i in 0..64 {
            let c = self.0[i];
            if c != 0 {
                t.0[map_sq(i, mirror, flip)] = if flip { cell(strength(c), !is_gold(c)) } else { c };
            }
        }
        t
    }
    pub fn fingerprint(&self) -> u64 {
        fnv(&self.0)
    }
}

pub fn map_sq(i: usize, mirror: bool, flip: bool) -> usize {
    let (mut f, mut r) = (i % 8, i / 8);
    if mirror {
        f = 7 - f;
    }
    if flip {
        r = 7 - r;
    }
    r * 8 + f
}
pub fn map_dir(d: u8, mirror: bool, flip: bool) -> u8 {
    match d {
        1 | 3 if mirror => opp(d),
        0 | 2 if flip => opp(d),
        _ => d,
    }
}
pub fn map_code(c: Code, mirror: bool, flip: bool) -> Code {
    if is_step(c) {
        step_code(map_sq(code_sq(c), mirror, flip), map_dir(code_dir(c), mirror, flip))
    } else {
        c
    }
}

pub fn fnv(bytes: &[u8]) -> u64 {
    let mut h: u64 = 0xcbf2_9ce4_8422_2325;
    for b in bytes {
        h ^= *b as u64;
        h = h.wrapping_mul(0x1000_0000_01b3);
    }
    h ^ (h >> 29)
}
pub fn mix(a: u64, b: u64) -> u64 {
    let mut x = a ^ b.wrapping_mul(0x9E37_79B9_7F4A_7C15);
    x ^= x >> 32;
    x = x.wrapping_mul(0xD6E8_FEB8_6659_FD93);
    x ^= x >> 29;
    x
}

/// Setup model (C09): per side the remaining complement, next square in fixed order.
#[derive(Clone, Debug, PartialEq, Eq)]
pub struct SetupModel {
    pub board: MBoard,
    pub gold: bool,
    pub placed: usize, // 0..32
    pub left: [[u8; 6]; 2],
}
impl SetupModel {
    pub fn new() -> SetupModel {
        SetupModel { board: MBoard::empty(), gold: true, placed: 0, left: [COMPLEMENT, COMPLEMENT] }
    }
    pub fn done(&self) -> bool {
        self.placed == 32
    }
    pub fn next_square(&self) -> usize {
        if self.placed < 16 {
            48 + self.placed // a2..h2 then a1..h1
        } else {
            self.placed - 16 // a8..h8 then a7..h7
        }
    }
    pub fn offered(&self) -> ActSet {
        let mut s = ActSet::new();
        let side = if self.gold { 0 } else { 1 };
        for st in 0..6u8 {
            if self.left[side][st as usize] > 0 {
                s.insert(place_code(st));
            }
        }
        s
    }
    pub fn place(&mut self, st: u8) {
        let side = if self.gold { 0 } else { 1 };
        let sq = self.next_square();
        self.board.0[sq] = cell(st, self.gold);
        self.left[side][st as usize] = self.left[side][st as usize].saturating_sub(1); // an engine that over-offers is C09's finding, not a harness crash
        self.placed += 1;
        if self.placed == 16 {
            self.gold = false;
        } else if self.placed == 32 {
            self.gold = true;
        }
    }
    pub fn count_vector(&self, gold: bool) -> [u8; 6] {
        let side = if gold { 0 } else { 1 };
        let mut v = [0u8; 6];
        for s in 0..6 {
            v[s] = COMPLEMENT[s].saturating_sub(self.left[side][s]);
        }
        v
    }
}

#[cfg(test)]
mod tests {
    use super::*;
    #[test]
    fn notation() {
        assert_eq!(parse_action_ref("a1n"), Some(step_code(56, 0)));
        assert_eq!(code_text(step_code(56, 0)), "a1n");
        assert_eq!(parse_action_ref("h8w"), Some(step_code(7, 3)));
        assert_eq!(parse_action_ref("p"), Some(PASS));
        assert_eq!(parse_action_ref("E"), Some(place_code(5)));
        assert_eq!(parse_action_ref("i1n"), None);
        assert_eq!(parse_action_ref("a9n"), None);
        for c in 0..263u16 {
            assert_eq!(parse_action_ref(&code_text(c)), Some(c));
        }
    }
    #[test]
    fn freeze_and_push() {
        let mut b = MBoard::empty();
        b.0[27] = cell(5, true); // d5 gold elephant
        b.0[28] = cell(0, false); // e5 silver rabbit
        assert!(b.frozen(28));
        assert!(!b.frozen(27));
        let l = b.legal(true, 0, Pend::None);
        assert!(l.contains(step_code(28, 0)) && l.contains(step_code(28, 1)) && l.contains(step_code(28, 2)));
        assert!(!l.contains(PASS));
        let a = b.apply(true, Pend::None, 28, 1).unwrap();
        assert_eq!(a.pend, Pend::Push(28, 0));
        let l2 = a.board.legal(true, 1, a.pend);
        assert_eq!(l2.len(), 1);
        assert!(l2.contains(step_code(27, 1)));
    }
}
