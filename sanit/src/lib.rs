//! Concurrent expansion of shared game states (C18, W12). No dependencies besides the engine.

use arimaa_engine_step::*;
use std::sync::Arc;

#[derive(Clone)]
pub struct Lcg(pub u64);
impl Lcg {
    pub fn next(&mut self) -> u64 {
        self.0 = self.0.wrapping_mul(6364136223846793005).wrapping_add(1442695040888963407);
        (self.0 >> 33) ^ (self.0 >> 11)
    }
    pub fn below(&mut self, n: usize) -> usize {
        (self.next() % n as u64) as usize
    }
}

fn fnv(h: &mut u64, bytes: &[u8]) {
    for b in bytes {
        *h ^= *b as u64;
        *h = h.wrapping_mul(0x1000_0000_01b3);
    }
}

struct Fnv(u64);
impl std::hash::Hasher for Fnv {
    fn finish(&self) -> u64 {
        self.0
    }
    fn write(&mut self, bytes: &[u8]) {
        fnv(&mut self.0, bytes)
    }
}
fn fold<T: std::hash::Hash>(h: &mut u64, v: &T) {
    let mut f = Fnv(*h);
    v.hash(&mut f);
    *h = f.0;
}

/// Text-free mode for the interpreters (Miri): same observations, no string formatting.
pub static LIGHT: std::sync::atomic::AtomicBool = std::sync::atomic::AtomicBool::new(false);

/// Everything observable about one state, folded into one number.
pub fn fingerprint(g: &GameState, deep: bool) -> u64 {
    let light = LIGHT.load(std::sync::atomic::Ordering::Relaxed);
    let mut h: u64 = 0xcbf2_9ce4_8422_2325;
    let va = g.valid_actions();
    for a in &va {
        fold(&mut h, a);
        fold(&mut h, &g.trapped_animal_for_action(a));
    }
    fnv(&mut h, b"|");
    for a in g.valid_actions_no_rep() {
        fold(&mut h, &a);
    }
    fold(&mut h, &g.is_terminal().map(|t| t == Terminal::GoldWin));
    fold(&mut h, &g.has_move(g.piece_board()).map(|t| t == Terminal::GoldWin));
    fnv(&mut h, &g.transposition_hash().to_le_bytes());
    if !light {
        fnv(&mut h, g.to_string().as_bytes());
    }
    fnv(&mut h, &[g.can_pass(true) as u8, g.can_pass(false) as u8, g.is_p1_turn_to_move() as u8, g.is_play_phase() as u8]);
    fnv(&mut h, &g.move_number().to_le_bytes());
    fold(&mut h, g); // std::hash::Hash of the state itself
    let pb = g.piece_board();
    for w in [pb.p1_pieces, pb.all_pieces, pb.elephants, pb.camels, pb.horses, pb.dogs, pb.cats, pb.rabbits] {
        fnv(&mut h, &w.to_le_bytes());
    }
    if let Some(pp) = g.as_play_phase() {
        fold(&mut h, &pp.push_pull_state());
        fnv(&mut h, &pp.hash_history().len().to_le_bytes());
        if let Some(z) = pp.hash_history().head() {
            fnv(&mut h, &z.board_state_hash().to_le_bytes());
        }
        fnv(&mut h, &[pp.step() as u8, pp.piece_trapped_this_turn() as u8]);
        if deep {
            for z in pp.hash_history().iter() {
                fnv(&mut h, &z.board_state_hash().to_le_bytes());
            }
            for i in 0..=pp.step() {
                let pb = g.piece_board_for_step(i);
                for w in [pb.p1_pieces, pb.all_pieces, pb.elephants, pb.camels, pb.horses, pb.dogs, pb.cats, pb.rabbits] {
                    fnv(&mut h, &w.to_le_bytes());
                }
            }
        }
    }
    h
}

/// Fingerprint of the stored fields only: no rule query is made (usable on a state nobody has queried yet).
pub fn structure_fp(g: &GameState) -> u64 {
    let mut h: u64 = 0xcbf2_9ce4_8422_2325;
    fold(&mut h, g);
    fnv(&mut h, g.to_string().as_bytes());
    fnv(&mut h, &g.transposition_hash().to_le_bytes());
    if let Some(pp) = g.as_play_phase() {
        for z in pp.hash_history().iter() {
            fnv(&mut h, &z.board_state_hash().to_le_bytes());
        }
        fnv(&mut h, &[pp.step() as u8, pp.piece_trapped_this_turn() as u8]);
    }
    h
}

fn delay(rng: &mut Lcg) {
    // the only places a real client can interleave: between engine calls
    match rng.below(8) {
        0 => std::thread::yield_now(),
        1 => {
            for _ in 0..rng.below(200) {
                std::hint::spin_loop();
            }
        }
        _ => {}
    }
}

/// Depth-limited expansion in an order permuted by `order`; results are (path id, fingerprint).
pub fn expand(g: &GameState, depth: u32, path: u64, order: &mut Lcg, delays: &mut Option<Lcg>, out: &mut Vec<(u64, u64)>) {
    if let Some(d) = delays {
        delay(d);
    }
    out.push((path, fingerprint(g, false)));
    if depth == 0 || (g.is_play_phase() && g.is_terminal().is_some() && g.current_step() == 0) {
        return;
    }
    let mut acts = g.valid_actions();
    // permute
    for i in (1..acts.len()).rev() {
        let j = order.below(i + 1);
        acts.swap(i, j);
    }
    let width = if depth >= 2 { acts.len().min(6) } else { acts.len().min(10) };
    // the subset must not depend on the permutation: take the `width` smallest by text
    let mut chosen = acts.clone();
    chosen.sort();
    chosen.truncate(width);
    for a in acts {
        if !chosen.contains(&a) {
            continue;
        }
        if let Some(d) = delays {
            delay(d);
        }
        let child = g.take_action(&a);
        let mut ph = path;
        fold(&mut ph, &a);
        // clone / drop traffic on the shared history list
        let extra = child.clone();
        expand(&child, depth - 1, ph, order, delays, out);
        drop(extra);
    }
}

pub fn sequential(g: &GameState, depth: u32) -> Vec<(u64, u64)> {
    let mut out = vec![];
    expand(g, depth, 1, &mut Lcg(1), &mut None, &mut out);
    out.sort_unstable();
    out
}

/// A root built without the text parser: scripted setup + `turns` pseudo-random turns.
pub fn build_root(seed: u64, turns: u32, mid_turn: bool) -> GameState {
    let mut rng = Lcg(seed ^ 0x5DEECE66D);
    let mut g = GameState::initial();
    while !g.is_play_phase() {
        let a = g.valid_actions();
        let pick = a[rng.below(a.len())];
        g = g.take_action(&pick);
    }
    let mut t = 0;
    let mut guard = 0;
    while t < turns && guard < turns * 8 + 8 {
        guard += 1;
        if g.current_step() == 0 && g.is_terminal().is_some() {
            break;
        }
        let a = g.valid_actions();
        if a.is_empty() {
            break;
        }
        let before = g.is_p1_turn_to_move();
        // prefer passing early so that turns (history entries) accumulate quickly
        let pick = if a.contains(&Action::Pass) && rng.below(2) == 0 { Action::Pass } else { a[rng.below(a.len())] };
        g = g.take_action(&pick);
        if g.is_p1_turn_to_move() != before {
            t += 1;
        }
    }
    if mid_turn && !(g.current_step() == 0 && g.is_terminal().is_some()) {
        let a = g.valid_actions();
        if let Some(m) = a.iter().find(|x| matches!(x, Action::Move(..))) {
            let n = g.take_action(m);
            if n.current_step() > 0 {
                g = n;
            }
        }
    }
    g
}

#[derive(Debug, Default, Clone)]
pub struct RoundReport {
    pub threads: usize,
    pub nodes: usize,
    pub mismatching_threads: usize,
    pub root_changed: bool,
    pub first_mismatch: Option<(u64, u64, u64)>,
    /// thread indices in the order in which they finished (observed with a local clock read; no shared state)
    pub finish_order: Vec<usize>,
}

/// Query the shared root repeatedly (all repetition-aware queries) and count answers that differ
/// from the sequential fingerprint: the place where a per-state cache published non-atomically shows.
fn hammer_root(root: &GameState, times: u32, expect: u64, out: &mut Vec<(u64, u64)>) {
    for k in 0..times {
        let fp = fingerprint(root, false);
        if fp != expect {
            // recorded under a path id that cannot exist in the sequential expansion
            out.push((u64::MAX - (k as u64 % 4), fp));
        }
    }
}

/// One round: `n` threads expand the same root concurrently (shared via Arc, borrowed, or moved
/// clones, by `mode`), plus droppers; each thread's sorted result vector must equal `expected`.
pub fn round(root: &GameState, depth: u32, n: usize, mode: u32, seed: u64, with_delays: bool, hammer: u32, expected: &[(u64, u64)]) -> RoundReport {
    round_impl(root, depth, n, mode, seed, with_delays, hammer, Some(expected))
}

/// Like `round`, but the root has not been queried by anybody yet: all threads are released from a
/// spin barrier onto the fresh state at the same instant, and the sequential expansion it is compared
/// with is computed only AFTER the threads have joined (per-state lazily built caches are then first
/// touched concurrently).
pub fn round_fresh(root: &GameState, depth: u32, n: usize, mode: u32, seed: u64) -> RoundReport {
    round_impl(root, depth, n, mode, seed, false, 0, None)
}

static GATE: std::sync::atomic::AtomicUsize = std::sync::atomic::AtomicUsize::new(0);

fn round_impl(root: &GameState, depth: u32, n: usize, mode: u32, seed: u64, with_delays: bool, hammer: u32, expected_in: Option<&[(u64, u64)]>) -> RoundReport {
    let fresh = expected_in.is_none();
    let root_fp = expected_in.and_then(|e| e.iter().find(|x| x.0 == 1).map(|x| x.1)).unwrap_or(0);
    let hammer = if fresh { 0 } else { hammer };
    GATE.store(0, std::sync::atomic::Ordering::SeqCst);
    let wait_gate = move || {
        if fresh {
            GATE.fetch_add(1, std::sync::atomic::Ordering::AcqRel);
            while GATE.load(std::sync::atomic::Ordering::Acquire) < n {
                std::hint::spin_loop();
            }
        }
    };
    // a fresh root is not queried before the threads are released
    let before = if fresh { structure_fp(root) } else { fingerprint(root, true) };
    let mut rep = RoundReport { threads: n, nodes: expected_in.map_or(0, |e| e.len()), ..Default::default() };
    let results: Vec<(usize, std::time::Instant, Vec<(u64, u64)>)> = match mode % 3 {
        0 => {
            // shared through Arc (requires Send + Sync)
            let shared = Arc::new(root.clone());
            let hs: Vec<_> = (0..n)
                .map(|i| {
                    let s = Arc::clone(&shared);
                    std::thread::spawn(move || {
                        let mut out = vec![];
                        let mut d = if with_delays { Some(Lcg(seed ^ (i as u64) << 20)) } else { None };
                        wait_gate();
                        hammer_root(&s, hammer, root_fp, &mut out);
                        expand(&s, depth, 1, &mut Lcg(seed.wrapping_add(i as u64 * 7919)), &mut d, &mut out);
                        (i, std::time::Instant::now(), out)
                    })
                })
                .collect();
            hs.into_iter().map(|h| h.join().unwrap()).collect()
        }
        1 => {
            // borrowed (requires Sync), with droppers that only clone and drop
            std::thread::scope(|sc| {
                let hs: Vec<_> = (0..n)
                    .map(|i| {
                        sc.spawn(move || {
                            let mut out = vec![];
                            if i % 4 == 3 {
                                wait_gate();
                                // dropper: clones of the shared state and of its history list
                                for _ in 0..20 {
                                    let c = root.clone();
                                    let l = c.as_play_phase().map(|p| p.hash_history().clone());
                                    drop(c);
                                    drop(l);
                                }
                                expand(root, 0, 1, &mut Lcg(1), &mut None, &mut out);
                                return (true, (i, std::time::Instant::now(), out));
                            }
                            let mut d = if with_delays { Some(Lcg(seed ^ (i as u64) << 20)) } else { None };
                            wait_gate();
                            hammer_root(root, hammer, root_fp, &mut out);
                            expand(root, depth, 1, &mut Lcg(seed.wrapping_add(i as u64 * 104729)), &mut d, &mut out);
                            (false, (i, std::time::Instant::now(), out))
                        })
                    })
                    .collect();
                hs.into_iter().map(|h| h.join().unwrap()).filter(|(dropper, _)| !dropper).map(|(_, o)| o).collect()
            })
        }
        _ => {
            // moved clones (requires Send); the clones share the history list with the root
            let hs: Vec<_> = (0..n)
                .map(|i| {
                    let mine = root.clone();
                    std::thread::spawn(move || {
                        let mut out = vec![];
                        let mut d = if with_delays { Some(Lcg(seed ^ (i as u64) << 20)) } else { None };
                        wait_gate();
                        hammer_root(&mine, hammer, root_fp, &mut out);
                        expand(&mine, depth, 1, &mut Lcg(seed.wrapping_add(i as u64 * 31)), &mut d, &mut out);
                        drop(mine);
                        (i, std::time::Instant::now(), out)
                    })
                })
                .collect();
            hs.into_iter().map(|h| h.join().unwrap()).collect()
        }
    };
    let computed: Vec<(u64, u64)>;
    let expected: &[(u64, u64)] = match expected_in {
        Some(e) => e,
        None => {
            computed = sequential(root, depth);
            &computed
        }
    };
    let mut order: Vec<(std::time::Instant, usize)> = results.iter().map(|r| (r.1, r.0)).collect();
    order.sort();
    rep.finish_order = order.into_iter().map(|x| x.1).collect();
    for (_, _, mut r) in results {
        r.sort_unstable();
        if r != expected {
            rep.mismatching_threads += 1;
            if rep.first_mismatch.is_none() {
                let k = r.iter().zip(expected.iter()).position(|(a, b)| a != b).unwrap_or(0);
                rep.first_mismatch = Some((expected.get(k).map_or(0, |x| x.0), expected.get(k).map_or(0, |x| x.1), r.get(k).map_or(0, |x| x.1)));
            }
        }
    }
    if rep.nodes == 0 {
        rep.nodes = expected.len();
    }
    rep.root_changed = (if fresh { structure_fp(root) } else { fingerprint(root, true) }) != before;
    rep
}

/// Lists sharing a long tail, extended and dropped from several threads (exercises List::drop).
pub fn shared_tail_lists(tail_len: usize, n: usize) -> usize {
    let mut base: List<u64> = List::new();
    for i in 0..tail_len {
        base = base.append(i as u64);
    }
    let hs: Vec<_> = (0..n)
        .map(|i| {
            let mine = base.clone();
            std::thread::spawn(move || {
                let mut l = mine;
                for k in 0..16 {
                    l = l.append((i * 1000 + k) as u64);
                }
                let s: u64 = l.iter().take(20).sum();
                let len = l.len();
                drop(l);
                (len, s)
            })
        })
        .collect();
    drop(base); // the tail is now owned only by the threads' lists: the last dropper frees it
    let mut total = 0;
    for h in hs {
        total += h.join().unwrap().0;
    }
    total
}


/// A root at step 3 of a turn in which the pass would be the third occurrence of a position while
/// the fourth steps lead to new positions: repetition-aware queries on it perform several history
/// lookups with different answers (built by play only: scripted setup + two shuffling cycles).
pub fn build_repetition_root(variant: u64) -> GameState {
    let mut g = GameState::initial();
    let place = |g: GameState, t: &str| -> GameState {
        let mut g = g;
        for ch in t.chars() {
            let a: Action = ch.to_string().parse().unwrap();
            g = g.take_action(&a);
        }
        g
    };
    // gold: majors on rank 2 (mobile), rabbits on rank 1; silver: rabbits on rank 8, majors on rank 7
    g = place(g, "emhhddccrrrrrrrr");
    g = place(g, "rrrrrrrremhhddcc");
    let play = |g: GameState, acts: &[&str]| -> GameState {
        let mut g = g;
        for t in acts {
            let a: Action = t.parse().unwrap();
            assert!(g.valid_actions().contains(&a), "scripted action {} not offered", t);
            g = g.take_action(&a);
        }
        g
    };
    // one cycle = 4 turns returning to the start position; played twice minus the last turn
    let (gf, sf) = if variant % 2 == 0 { ("a", "a") } else { ("h", "h") };
    let g_out = format!("{}2n", gf);
    let g_back = format!("{}3s", gf);
    let s_out = format!("{}7s", sf);
    let s_back = format!("{}6n", sf);
    g = play(g, &[&g_out, "p", &s_out, "p", &g_back, "p", &s_back, "p"]); // start position: 2nd occurrence
    g = play(g, &[&g_out, "p", &s_out, "p", &g_back, "p"]);
    // silver, third cycle: detour with the neighbouring piece, then step back: at step 3 the board
    // equals the start position, whose third occurrence a pass would create
    let (n_out, n_back) = if variant % 2 == 0 { ("b7s", "b6n") } else { ("g7s", "g6n") };
    g = play(g, &[n_out, n_back, &s_back]);
    g
}

/// Elements that record how deep on the stack they are dropped.
pub struct Probe(pub u32);
thread_local! {
    static SPAN: std::cell::Cell<(usize, usize)> = std::cell::Cell::new((usize::MAX, 0));
}
impl Drop for Probe {
    fn drop(&mut self) {
        let marker = 0u8;
        let addr = &marker as *const u8 as usize;
        SPAN.with(|s| {
            let (lo, hi) = s.get();
            s.set((lo.min(addr), hi.max(addr)));
        });
    }
}

/// k threads each own one handle to the same n-node list and drop it at the same instant (spin
/// barrier). Returns the largest stack span (bytes) observed while the nodes were freed: constant
/// for an iterative drop, proportional to n if the last decrement falls into recursive drop glue.
pub fn concurrent_last_owner_drop(n: usize, k: usize, rounds: usize) -> (usize, usize) {
    use std::sync::atomic::{AtomicUsize, Ordering};
    let mut worst = 0usize;
    let mut freed_by_worst = 0usize;
    for _ in 0..rounds {
        let mut base: List<Probe> = List::new();
        for i in 0..n {
            base = base.append(Probe(i as u32));
        }
        let gate = Arc::new(AtomicUsize::new(0));
        let hs: Vec<_> = (0..k)
            .map(|_| {
                let mine = base.clone();
                let gate = Arc::clone(&gate);
                std::thread::spawn(move || {
                    SPAN.with(|s| s.set((usize::MAX, 0)));
                    gate.fetch_add(1, Ordering::AcqRel);
                    while gate.load(Ordering::Acquire) < k + 1 {
                        std::hint::spin_loop();
                    }
                    drop(mine);
                    let (lo, hi) = SPAN.with(|s| s.get());
                    if hi >= lo {
                        hi - lo
                    } else {
                        0
                    }
                })
            })
            .collect();
        while gate.load(Ordering::Acquire) < k {
            std::hint::spin_loop();
        }
        drop(base); // the k threads are now the only owners
        gate.fetch_add(1, Ordering::AcqRel);
        for h in hs {
            let span = h.join().unwrap();
            if span > worst {
                worst = span;
                freed_by_worst = n;
            }
        }
    }
    (worst, freed_by_worst)
}


/// Cold start: the very first engine calls of the process are made by `n` threads at the same
/// time (each plays the same deterministic playout from GameState::initial() and expands it), so
/// that lazily initialised process-wide state is first touched concurrently. All threads must get
/// identical results, equal to a later single-threaded recomputation.
pub fn cold_start(n: usize, seed: u64, turns: u32, depth: u32) -> (usize, usize) {
    use std::sync::atomic::{AtomicUsize, Ordering};
    let gate = Arc::new(AtomicUsize::new(0));
    let hs: Vec<_> = (0..n)
        .map(|_| {
            let gate = Arc::clone(&gate);
            std::thread::spawn(move || {
                gate.fetch_add(1, Ordering::AcqRel);
                while gate.load(Ordering::Acquire) < n {
                    std::hint::spin_loop();
                }
                let root = build_root(seed, turns, false);
                let rep = build_repetition_root(seed);
                let mut v = sequential(&root, depth);
                v.extend(sequential(&rep, 1));
                v
            })
        })
        .collect();
    let results: Vec<Vec<(u64, u64)>> = hs.into_iter().map(|h| h.join().unwrap()).collect();
    let root = build_root(seed, turns, false);
    let rep = build_repetition_root(seed);
    let mut expected = sequential(&root, depth);
    expected.extend(sequential(&rep, 1));
    let bad = results.iter().filter(|r| **r != expected).count();
    (bad, expected.len() * n)
}


/// Cold start on prepared states: the main thread builds four mid-turn states with the text parser and
/// `take_action` only (no query has run in this process yet: a possible pull next to the h-file and one next to
/// the a-file, a pending push, a third step), then `n` threads released together put their very first
/// questions to the same state at the same instant (`first` rotates which one). Every thread's answers
/// must equal the ones a single thread gets afterwards. Returns (threads that differ, answers compared).
pub fn cold_start_prepared(n: usize, first: usize) -> (usize, usize) {
    use std::sync::atomic::{AtomicUsize, Ordering};
    let specs: [(&str, &[&str]); 4] = [
        ("2g\n +-----------------+\n8| r r r   r r r   |\n7|       e         |\n6|                 |\n5|                 |\n4|                 |\n3|                 |\n2| R R R         r |\n1|       E       D |\n +-----------------+\n   a b c d e f g h", &["h1w"]),
        ("2s\n +-----------------+\n8| d       e       |\n7| R         r r r |\n6|                 |\n5|                 |\n4|                 |\n3|                 |\n2|   R R     E     |\n1|       R R R     |\n +-----------------+\n   a b c d e f g h", &["a8e"]),
        ("5g\n +-----------------+\n8| r r       r r   |\n7|                 |\n6|                 |\n5|       r         |\n4|     c E         |\n3|                 |\n2| R R         R   |\n1|                 |\n +-----------------+\n   a b c d e f g h", &["d5n"]),
        ("7s\n +-----------------+\n8| r r       r r   |\n7|                 |\n6|         h       |\n5|         C       |\n4|                 |\n3|   D             |\n2| R R         R   |\n1|                 |\n +-----------------+\n   a b c d e f g h", &["e6w", "d6e", "e6w"]),
    ];
    let build = || -> Vec<GameState> {
        specs
            .iter()
            .map(|(t, steps)| {
                let mut g: GameState = t.parse().expect("prepared position parses");
                for a in steps.iter() {
                    g = g.take_action(&a.parse().expect("prepared step parses"));
                }
                g
            })
            .collect()
    };
    let states = Arc::new(build());
    let gate = Arc::new(AtomicUsize::new(0));
    let hs: Vec<_> = (0..n)
        .map(|_| {
            let gate = Arc::clone(&gate);
            let states = Arc::clone(&states);
            std::thread::spawn(move || {
                gate.fetch_add(1, Ordering::AcqRel);
                while gate.load(Ordering::Acquire) < n {
                    std::hint::spin_loop();
                }
                let m = states.len();
                (0..m).map(|k| (((first + k) % m) as u64, fingerprint(&states[(first + k) % m], false))).collect::<Vec<(u64, u64)>>()
            })
        })
        .collect();
    let results: Vec<Vec<(u64, u64)>> = hs.into_iter().map(|h| h.join().unwrap()).collect();
    let again = build();
    let m = again.len();
    let expected: Vec<(u64, u64)> = (0..m).map(|k| (((first + k) % m) as u64, fingerprint(&again[(first + k) % m], false))).collect();
    let bad = results.iter().filter(|r| **r != expected).count();
    (bad, expected.len() * n)
}

fn collect(g: &GameState, depth: u32, out: &mut Vec<GameState>, cap: usize) {
    if out.len() >= cap {
        return;
    }
    out.push(g.clone());
    if depth == 0 || (g.is_play_phase() && g.current_step() == 0 && g.is_terminal().is_some()) {
        return;
    }
    for a in g.valid_actions() {
        collect(&g.take_action(&a), depth - 1, out, cap);
    }
}

/// Pool round: many DIFFERENT states (all nodes of the turn trees below the roots) are queried by
/// `n` threads at the same time, each thread in its own order, so that at any moment different
/// threads work on different states and different queries; every answer must equal the one the
/// same state gave sequentially. Returns (mismatches, states in the pool).
pub fn pool_round(roots: &[GameState], depth: u32, n: usize, seed: u64, passes: u32, cap: usize) -> (usize, usize) {
    let mut pool: Vec<GameState> = vec![];
    for r in roots {
        collect(r, depth, &mut pool, cap);
    }
    let expected: Vec<u64> = pool.iter().map(|g| fingerprint(g, false)).collect();
    let pool = Arc::new(pool);
    let expected = Arc::new(expected);
    let hs: Vec<_> = (0..n)
        .map(|i| {
            let pool = Arc::clone(&pool);
            let expected = Arc::clone(&expected);
            std::thread::spawn(move || {
                let mut rng = Lcg(seed ^ ((i as u64 + 1) << 32));
                let mut bad = 0usize;
                let m = pool.len();
                for _ in 0..passes {
                    // a different stride per thread visits the pool in a different order
                    let stride = 1 + 2 * rng.below(m.max(2) / 2);
                    let mut k = rng.below(m.max(1));
                    for _ in 0..m {
                        if fingerprint(&pool[k], false) != expected[k] {
                            bad += 1;
                        }
                        k = (k + stride) % m;
                    }
                }
                bad
            })
        })
        .collect();
    let bad: usize = hs.into_iter().map(|h| h.join().unwrap()).sum();
    (bad, pool.len())
}


/// Duel: thread i works only on the states of group i % groups (e.g. the step-3 states of one of
/// several sibling games) and queries them over and over while the other threads do the same with
/// THEIR group: cross-talk between different games shows as an answer that differs from the
/// sequential one. Returns (mismatches, queries).
pub fn duel_round(groups: &[Vec<GameState>], threads: usize, iters: u32) -> (usize, usize) {
    let expected: Vec<Vec<u64>> = groups.iter().map(|g| g.iter().map(|s| fingerprint(s, false)).collect()).collect();
    let groups = Arc::new(groups.to_vec());
    let expected = Arc::new(expected);
    let hs: Vec<_> = (0..threads)
        .map(|i| {
            let groups = Arc::clone(&groups);
            let expected = Arc::clone(&expected);
            std::thread::spawn(move || {
                let gi = i % groups.len();
                let mut bad = 0usize;
                let mut n = 0usize;
                for _ in 0..iters {
                    for (k, st) in groups[gi].iter().enumerate() {
                        if fingerprint(st, false) != expected[gi][k] {
                            bad += 1;
                        }
                        n += 1;
                    }
                }
                (bad, n)
            })
        })
        .collect();
    let mut bad = 0;
    let mut n = 0;
    for h in hs {
        let (b, k) = h.join().unwrap();
        bad += b;
        n += k;
    }
    (bad, n)
}

/// All states at step `step` in the turn tree below `root`.
pub fn states_at_step(root: &GameState, step: usize, cap: usize) -> Vec<GameState> {
    let mut all = vec![];
    collect(root, step as u32, &mut all, cap * 20);
    all.into_iter().filter(|g| g.is_play_phase() && g.current_step() == step).take(cap).collect()
}


/// Migration round ("work stealing"): every thread plays its own deterministic playout from its own
/// start position (all states of the chain are BUILT on that thread), hands the whole chain to its
/// neighbour, and then continues the neighbour's states (take_action of every offered action) while
/// interleaving queries on its own states. Every successor must equal the one computed sequentially.
/// `starts[i]` is the start state of thread i's playout. Returns (mismatches, successors compared).
pub fn migration_round(starts: &[GameState], chain_len: usize, seed: u64) -> (usize, usize) {
    use std::sync::mpsc::channel;
    let n = starts.len();
    // sequential reference: chains and successor fingerprints
    let play = |start: &GameState, salt: u64| -> Vec<GameState> {
        let mut rng = Lcg(seed ^ salt);
        let mut g = start.clone();
        let mut chain = vec![];
        for _ in 0..chain_len {
            if g.is_play_phase() && g.current_step() == 0 && g.is_terminal().is_some() {
                break;
            }
            let acts = g.valid_actions();
            if acts.is_empty() {
                break;
            }
            // prefer capturing steps: capture-rich chains
            let caps: Vec<&Action> = acts.iter().filter(|a| g.trapped_animal_for_action(a).is_some()).collect();
            let a = if !caps.is_empty() && rng.below(2) == 0 { *caps[rng.below(caps.len())] } else { acts[rng.below(acts.len())] };
            g = g.take_action(&a);
            chain.push(g.clone());
        }
        chain
    };
    let succ = |g: &GameState| -> Vec<u64> { g.valid_actions().iter().map(|a| fingerprint(&g.take_action(a), false)).collect() };
    let expected: Vec<Vec<Vec<u64>>> = (0..n).map(|i| play(&starts[i], i as u64).iter().map(|g| succ(g)).collect()).collect();
    let expected = Arc::new(expected);
    let mut txs = vec![];
    let mut rxs = vec![];
    for _ in 0..n {
        let (tx, rx) = channel::<Vec<GameState>>();
        txs.push(tx);
        rxs.push(Some(rx));
    }
    let hs: Vec<_> = (0..n)
        .map(|i| {
            let start = starts[i].clone();
            let tx = txs[(i + 1) % n].clone();
            let rx = rxs[i].take().unwrap();
            let expected = Arc::clone(&expected);
            std::thread::spawn(move || {
                // the chain is built on THIS thread
                let mut rng = Lcg(seed ^ i as u64);
                let mut g = start;
                let mut chain = vec![];
                for _ in 0..chain_len {
                    if g.is_play_phase() && g.current_step() == 0 && g.is_terminal().is_some() {
                        break;
                    }
                    let acts = g.valid_actions();
                    if acts.is_empty() {
                        break;
                    }
                    let caps: Vec<&Action> = acts.iter().filter(|a| g.trapped_animal_for_action(a).is_some()).collect();
                    let a = if !caps.is_empty() && rng.below(2) == 0 { *caps[rng.below(caps.len())] } else { acts[rng.below(acts.len())] };
                    g = g.take_action(&a);
                    chain.push(g.clone());
                }
                tx.send(chain.clone()).ok();
                let theirs = rx.recv().unwrap_or_default();
                let from = (i + n - 1) % n;
                let mut bad = 0usize;
                let mut cmp = 0usize;
                for (k, s) in theirs.iter().enumerate() {
                    // a query on one of our own states first (same position in the chain)
                    if let Some(own) = chain.get(k) {
                        let _ = fingerprint(own, false);
                    }
                    let got: Vec<u64> = s.valid_actions().iter().map(|a| fingerprint(&s.take_action(a), false)).collect();
                    cmp += got.len();
                    if expected[from].get(k) != Some(&got) {
                        bad += 1;
                    }
                }
                (bad, cmp)
            })
        })
        .collect();
    drop(txs);
    let mut bad = 0;
    let mut cmp = 0;
    for h in hs {
        let (b, c) = h.join().unwrap();
        bad += b;
        cmp += c;
    }
    (bad, cmp)
}


/// Simultaneous children: every thread takes a DIFFERENT offered action of the same root at the same
/// instant (spin gate right before `take_action`); afterwards each child is compared (deep fingerprint:
/// the whole history) with the child computed sequentially. The root must not have had any successor
/// before. Returns (mismatches, children compared).
pub fn simultaneous_children(root: &GameState, n: usize) -> (usize, usize) {
    let acts = root.valid_actions();
    if acts.is_empty() {
        return (0, 0);
    }
    let gate = std::sync::atomic::AtomicUsize::new(0);
    let got: Vec<(Action, u64)> = std::thread::scope(|sc| {
        let hs: Vec<_> = (0..n)
            .map(|i| {
                let a = acts[i % acts.len()];
                let gate = &gate;
                sc.spawn(move || {
                    gate.fetch_add(1, std::sync::atomic::Ordering::AcqRel);
                    while gate.load(std::sync::atomic::Ordering::Acquire) < n {
                        std::hint::spin_loop();
                    }
                    let child = root.take_action(&a);
                    (a, fingerprint(&child, true))
                })
            })
            .collect();
        hs.into_iter().map(|h| h.join().unwrap()).collect()
    });
    let mut bad = 0;
    for (a, fp) in &got {
        if fingerprint(&root.take_action(a), true) != *fp {
            bad += 1;
        }
    }
    (bad, got.len())
}


/// Slot round: every thread owns ONE state variable into which the given states (look-alikes: same position,
/// different pasts) are moved in turn and queried there - the same storage address holds different states.
/// Expected fingerprints are computed beforehand on the originals. Returns (mismatches, queries).
pub fn slot_round(states: &[GameState], threads: usize, iters: u32) -> (usize, usize) {
    let expected: Vec<u64> = states.iter().map(|s| fingerprint(s, false)).collect();
    let states = Arc::new(states.to_vec());
    let expected = Arc::new(expected);
    let hs: Vec<_> = (0..threads)
        .map(|t| {
            let states = Arc::clone(&states);
            let expected = Arc::clone(&expected);
            std::thread::spawn(move || {
                let mut slot: GameState = states[t % states.len()].clone();
                let mut bad = 0usize;
                let mut n = 0usize;
                for it in 0..iters as usize {
                    for k in 0..states.len() {
                        let i = (k + t + it) % states.len();
                        if it % 2 == 0 {
                            slot = states[i].clone();
                        } else {
                            slot.clone_from(&states[i]);
                        }
                        if fingerprint(&slot, false) != expected[i] {
                            bad += 1;
                        }
                        n += 1;
                    }
                }
                (bad, n)
            })
        })
        .collect();
    let mut bad = 0;
    let mut n = 0;
    for h in hs {
        let (b, k) = h.join().unwrap();
        bad += b;
        n += k;
    }
    (bad, n)
}
