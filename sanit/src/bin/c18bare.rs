//! c18bare <rounds> <threads> <depth> <seed> [history_turns] [tail_len] [light] [force_repetition_root] [cold_start]
//! exit 0 = every thread's results equalled the sequential oracle; 1 = mismatch.
use c18bare::*;

fn arg(i: usize, default: u64) -> u64 {
    std::env::args().nth(i).and_then(|s| s.parse().ok()).unwrap_or(default)
}

fn main() {
    let rounds = arg(1, 4);
    let threads = arg(2, 4) as usize;
    let depth = arg(3, 2) as u32;
    let seed = arg(4, 1);
    let turns = arg(5, 6) as u32;
    let tail = arg(6, 300) as usize;
    if arg(7, 0) == 1 {
        LIGHT.store(true, std::sync::atomic::Ordering::Relaxed);
    }
    let mut bad = 0;
    let mut nodes = 0;
    if arg(9, 0) == 1 {
        // cold start must come before any other engine call of this process
        let (b, n) = cold_start(threads, seed, turns, depth);
        nodes += n;
        if b > 0 {
            bad += 1;
            println!("MISMATCH cold_start: {} of {} threads disagree with the single-threaded recomputation", b, threads);
        }
    }
    if arg(9, 0) == 2 {
        // cold start on prepared states: nothing has been asked in this process before the threads are released
        let (b, n) = cold_start_prepared(threads, seed as usize);
        nodes += n;
        if b > 0 {
            bad += 1;
            println!("MISMATCH cold_start_prepared: {} of {} threads disagree with the single-threaded recomputation (first state {})", b, threads, seed % 4);
        }
    }
    for r in 0..rounds {
        let force_rep = arg(8, 0) == 1;
        let root = if r % 3 == 2 || force_rep { build_repetition_root(seed.wrapping_add(r)) } else { build_root(seed.wrapping_add(r), turns, r % 2 == 1) };
        let expected = sequential(&root, depth);
        let rep = round(&root, depth, threads, r as u32, seed.wrapping_mul(31).wrapping_add(r), true, if r % 3 == 2 || force_rep { 6 } else { 1 }, &expected);
        nodes += rep.nodes * rep.threads;
        if rep.mismatching_threads > 0 || rep.root_changed {
            bad += 1;
            println!("MISMATCH round={} {:?}", r, rep);
        }
    }
    let total = shared_tail_lists(tail, threads);
    if total != threads * (tail + 16) {
        bad += 1;
        println!("MISMATCH shared_tail_lists total={}", total);
    }
    if arg(7, 0) != 1 && rounds > 0 {
        let roots = vec![build_repetition_root(seed), build_root(seed ^ 5, turns, true)];
        let (pb, pn) = pool_round(&roots, 2, threads, seed, 2, 1500);
        nodes += pn * threads * 2;
        if pb > 0 {
            bad += 1;
            println!("MISMATCH pool_round: {} answers differ from the sequential ones over a pool of {} states", pb, pn);
        }
    }
    if arg(7, 0) != 1 && rounds > 0 {
        // threads released together onto one root; and states built on one thread continued on another
        let root = build_repetition_root(seed ^ 9);
        let rep = round_fresh(&root, depth.min(1), threads, seed as u32, seed);
        nodes += rep.nodes * rep.threads;
        if rep.mismatching_threads > 0 || rep.root_changed {
            bad += 1;
            println!("MISMATCH fresh round {:?}", rep);
        }
        let starts: Vec<_> = (0..threads.min(6)).map(|i| build_root(seed ^ (i as u64 + 11), turns.min(8), false)).collect();
        let (mb, mc) = migration_round(&starts, 12, seed);
        nodes += mc;
        if mb > 0 {
            bad += 1;
            println!("MISMATCH migration_round: {} migrated states with wrong successors of {} compared", mb, mc);
        }
    }
    if arg(7, 0) != 1 {
        let (span, n) = concurrent_last_owner_drop(1500, threads.min(4).max(2), 30);
        if span > 8 * 1024 {
            bad += 1;
            println!("MISMATCH concurrent_last_owner_drop: stack span {} bytes while freeing a {}-node list", span, n);
        }
    }
    println!("c18bare rounds={} threads={} depth={} nodes_compared={} mismatches={}", rounds, threads, depth, nodes, bad);
    std::process::exit(if bad > 0 { 1 } else { 0 });
}
