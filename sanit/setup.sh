#!/bin/bash
# Pre-builds the sanitizer variants of the bare C18 workload so that later checks are incremental.
set -u
D="$(cd "$(dirname "${BASH_SOURCE[0]}")" && pwd)"
T="${CARGO_TARGET_DIR:-$D/../target}"
export CARGO_NET_OFFLINE=true CARGO_TERM_COLOR=never
cd "$D"
( RUSTFLAGS="-Zsanitizer=thread" CARGO_TARGET_DIR="$T/sanit-tsan" cargo +nightly build -Zbuild-std --target x86_64-unknown-linux-gnu --release --offline >"$T/sanit-tsan-build.log" 2>&1 ) || { echo "TSan build failed"; tail -n 20 "$T/sanit-tsan-build.log"; exit 1; }
( env -u RUSTFLAGS MIRIFLAGS="-Zmiri-many-seeds=0..1" CARGO_TARGET_DIR="$T/sanit-miri" cargo +nightly miri run --offline -- 1 2 0 1 0 8 1 >"$T/sanit-miri-build.log" 2>&1 ) || { echo "Miri warm-up failed"; tail -n 20 "$T/sanit-miri-build.log"; exit 1; }
( cd "$D/../probe_autotraits" && CARGO_TARGET_DIR="$T/probe" cargo build --offline >"$T/probe-build.log" 2>&1 ) || { echo "probe build failed"; tail -n 20 "$T/probe-build.log"; exit 1; }
echo "sanitizer builds ok"
