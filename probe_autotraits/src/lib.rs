//! Build-time observation for C18: "for all client programs that require Send + Sync".
use arimaa_engine_step::*;

fn needs<T: Send + Sync>() {}

pub fn probe() {
    needs::<GameState>();
    needs::<PieceBoardState>();
    needs::<PieceBoard>();
    needs::<PlayPhase>();
    needs::<Phase>();
    needs::<Action>();
    needs::<Square>();
    needs::<Piece>();
    needs::<Direction>();
    needs::<Zobrist>();
    needs::<List<Zobrist>>();
    needs::<PushPullState>();
    needs::<Terminal>();
    // what a multi-threaded search actually does with them
    needs::<std::sync::Arc<GameState>>();
    needs::<Vec<GameState>>();
    fn spawnable<T: Send + 'static>(_: T) {}
    spawnable(GameState::initial());
    spawnable(std::sync::Arc::new(GameState::initial()));
}
